#!/bin/bash
# kj.sh <feature> <harness> [mem_gb] [timeout_s] [extra cargo-kani args...]: one Kani job, logged.
f=$1; h=$2; mem=${3:-12}; to=${4:-900}; shift 4 2>/dev/null
mkdir -p /verif/.build/logs
log=/verif/.build/logs/$h.log; rm -f $log
( ulimit -v $((mem*1024*1024)); cd /verif/kani/h && CARGO_NET_OFFLINE=true timeout $to cargo kani --features $f --target-dir /verif/.build/$f -Z stubbing --harness $h --exact "$@" > $log 2>&1; echo "EXIT $?" >> $log )
grep -aE "VERIFICATION|Verification Time|Failed Checks|^error|Runtime Symex|out of memory|EXIT|SATISFIED|UNSATISFIABLE|UNREACHABLE" $log | sort | uniq -c | head -30
