//! Naive reference model of the memchr API subset used by pasfmt-core (see Cargo.toml).
//! Semantics (from the memchr documentation): index of the first occurrence, if any.
#![no_std]

pub fn memchr(needle: u8, haystack: &[u8]) -> Option<usize> {
    let mut i = 0;
    while i < haystack.len() {
        if haystack[i] == needle {
            return Some(i);
        }
        i += 1;
    }
    None
}

pub fn memchr2(needle1: u8, needle2: u8, haystack: &[u8]) -> Option<usize> {
    let mut i = 0;
    while i < haystack.len() {
        if haystack[i] == needle1 || haystack[i] == needle2 {
            return Some(i);
        }
        i += 1;
    }
    None
}

pub fn memchr3(needle1: u8, needle2: u8, needle3: u8, haystack: &[u8]) -> Option<usize> {
    let mut i = 0;
    while i < haystack.len() {
        if haystack[i] == needle1 || haystack[i] == needle2 || haystack[i] == needle3 {
            return Some(i);
        }
        i += 1;
    }
    None
}

pub mod memmem {
    pub fn find(haystack: &[u8], needle: &[u8]) -> Option<usize> {
        if needle.len() > haystack.len() {
            return None;
        }
        let mut s = 0;
        while s + needle.len() <= haystack.len() {
            let mut all = true;
            let mut k = 0;
            while k < needle.len() {
                all &= haystack[s + k] == needle[k];
                k += 1;
            }
            if all {
                return Some(s);
            }
            s += 1;
        }
        None
    }
}
