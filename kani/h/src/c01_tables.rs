//! Alphabets shared by the content-rule harnesses (C01, C03, C07): each contains every byte
//! class the rule under test distinguishes.
pub const LC_SIGMA: [u8; 7] = [b'/', b' ', b'\t', 0x0b, b'a', b'-', b'!'];
pub const DIR_SIGMA: [u8; 9] = [b'a', b'Z', b'1', b'_', b'+', b'-', b',', b' ', b'}'];
