//! C17 -- encoding and BOM (partial: UTF-8 / UTF-16).
use crate::common::*;
use crate::{cover, harness};
use pasfmt_orchestrator::file_formatter::verif_hooks_file as fh;

/// U0: BOM sniffing (`Encoding::for_bom`, the function `decode_file` relies on) == the three
/// byte-order marks, for every 4-byte prefix.
harness! {
    fn c17_u0_bom_sniffing() unwind(6) {
        let b: [u8; 4] = kani::any();
        let n = any_usize_upto(4);
        let r = encoding_rs::Encoding::for_bom(&b[..n]);
        let want = if n >= 3 && b[0] == 0xEF && b[1] == 0xBB && b[2] == 0xBF {
            Some((encoding_rs::UTF_8, 3))
        } else if n >= 2 && b[0] == 0xFF && b[1] == 0xFE {
            Some((encoding_rs::UTF_16LE, 2))
        } else if n >= 2 && b[0] == 0xFE && b[1] == 0xFF {
            Some((encoding_rs::UTF_16BE, 2))
        } else {
            None
        };
        match (r, want) {
            (None, None) => {}
            (Some((e, l)), Some((we, wl))) => assert!(e == we && l == wl),
            _ => panic!("BOM sniffing differs from the reference"),
        }
        cover!(matches!(want, Some((_, 2))), "utf16_bom");
    }
}

fn utf8_of(c: char, out: &mut Vec<u8>) {
    let mut b = [0u8; 4];
    let s = c.encode_utf8(&mut b);
    let mut k = 0;
    while k < s.len() {
        out.push(s.as_bytes()[k]);
        k += 1;
    }
}

/// U1: the hand-written UTF-16 encoders == reference (code unit arithmetic from the Unicode
/// standard) for every string of `n` arbitrary scalar values.
fn u1_body(n: usize, be: bool) {
    let mut v = Vec::with_capacity(4 * n);
    let mut want = Vec::with_capacity(4 * n);
    let mut k = 0;
    while k < n {
        let c: char = kani::any();
        utf8_of(c, &mut v);
        let cp = c as u32;
        let mut unit = |u: u16| {
            if be {
                want.push((u >> 8) as u8);
                want.push(u as u8);
            } else {
                want.push(u as u8);
                want.push((u >> 8) as u8);
            }
        };
        if cp < 0x10000 {
            unit(cp as u16);
        } else {
            let x = cp - 0x10000;
            unit(0xD800 + (x >> 10) as u16);
            unit(0xDC00 + (x & 0x3FF) as u16);
        }
        k += 1;
    }
    let text = leak_str(v);
    let got = if be { fh::encode_utf16be(text) } else { fh::encode_utf16le(text) };
    assert!(got.len() == want.len(), "UTF-16 length");
    let i: usize = kani::any();
    kani::assume(i < want.len());
    assert!(got[i] == want[i], "UTF-16 code unit");
    cover!(want.len() == 4 * n, "all_surrogate_pairs");
    std::mem::forget(got);
    std::mem::forget(want);
}
harness! { fn c17_u1_utf16le_1scalar() unwind(8) { u1_body(1, false) } }
harness! { fn c17_u1_utf16be_1scalar() unwind(8) { u1_body(1, true) } }
harness! { fn c17_u1_utf16le_2scalars() unwind(10) { u1_body(2, false) } }
harness! { fn c17_u1_utf16be_2scalars() unwind(10) { u1_body(2, true) } }

/// A `Write` sink with a fixed buffer (no allocation of symbolic size).
pub struct Sink {
    pub b: [u8; 32],
    pub n: usize,
}
impl std::io::Write for Sink {
    fn write(&mut self, buf: &[u8]) -> std::io::Result<usize> {
        let mut k = 0;
        while k < buf.len() {
            self.b[self.n] = buf[k];
            self.n += 1;
            k += 1;
        }
        Ok(buf.len())
    }
    fn flush(&mut self) -> std::io::Result<()> {
        Ok(())
    }
}

/// U3: the real `write`: bytes written == BOM ++ encode(text) and the returned length (what
/// `set_len` receives in files mode) is their total -- UTF-16LE/BE and UTF-8, with/without BOM.
fn u3_body(which: u8, n: usize) {
    let enc: &'static encoding_rs::Encoding = match which { 0 => encoding_rs::UTF_16LE, 1 => encoding_rs::UTF_16BE, _ => encoding_rs::UTF_8 };
    let bom: &[u8] = match which { 0 => &[0xFF, 0xFE], 1 => &[0xFE, 0xFF], _ => &[0xEF, 0xBB, 0xBF] };
    let with_bom: bool = kani::any();
    let text = sym_text(b"", n, &[b'a', b'\n', b';', 0x7f], b"");
    let mut sink = Sink { b: [0; 32], n: 0 };
    let r = fh::write(&mut sink, enc, if with_bom { Some(bom) } else { None }, text);
    let len = r.expect("representable text encodes");
    let unit = if which < 2 { 2 } else { 1 };
    let bl = if with_bom { bom.len() } else { 0 };
    assert!(len as usize == bl + unit * n, "returned length != bytes of BOM + encoded text");
    assert!(sink.n == len as usize, "returned length != bytes written");
    let i: usize = kani::any();
    kani::assume(i < sink.n);
    let want = if i < bl {
        bom[i]
    } else {
        let j = i - bl;
        match which {
            0 => if j % 2 == 0 { text.as_bytes()[j / 2] } else { 0 },
            1 => if j % 2 == 1 { text.as_bytes()[j / 2] } else { 0 },
            _ => text.as_bytes()[j],
        }
    };
    assert!(sink.b[i] == want, "byte written differs from BOM ++ encode(text)");
    cover!(with_bom, "with_bom");
}
harness! { fn c17_u3_write_utf16le_len3() unwind(12) stubs(std::fmt::format => crate::common::stub_fmt_format, std::vec::Vec::reserve => crate::common::stub_vec_reserve_no_growth) { u3_body(0, 3) } }
harness! { fn c17_u3_write_utf16be_len3() unwind(12) stubs(std::fmt::format => crate::common::stub_fmt_format, std::vec::Vec::reserve => crate::common::stub_vec_reserve_no_growth) { u3_body(1, 3) } }
harness! { fn c17_u3_write_utf8_len3() unwind(12) stubs(std::fmt::format => crate::common::stub_fmt_format) { u3_body(2, 3) } }

use pasfmt_core::prelude::*;
use pasfmt_orchestrator::file_formatter::FileFormatter;

fn file_formatter(enc: &'static encoding_rs::Encoding) -> &'static FileFormatter {
    let f = Formatter::builder()
        .lexer(DelphiLexer {})
        .parser(DelphiLogicalLineParser {})
        .reconstructor(DelphiLogicalLinesReconstructor::new(recon_settings(false, false, 2, 2)))
        .build();
    Box::leak(Box::new(FileFormatter::new(f, enc)))
}

/// U2: the real `decode_file` on `bom ++ payload`: the BOM selects the encoding (overriding the
/// configured one), is stripped and remembered, and the decoded text is exactly the payload --
/// nothing more is stripped (payload = optional second U+FEFF + symbolic ASCII bytes, UTF-8).
fn u2_body(with_bom: bool, second_feff: bool, n: usize) { u2_body_s(with_bom, second_feff, n, false) }

/// `scalar3`: the payload additionally ends with one arbitrary 3-byte scalar out of
/// U+1000..U+CFFF and U+E000..U+FFFF (lead byte E1..EC or EE..EF: every continuation pair is
/// valid) -- this includes U+FFFD, which is ordinary text, and U+FEFF (only after a real BOM: at the
/// very start it would *be* the BOM).
fn u2_body_s(with_bom: bool, second_feff: bool, n: usize, scalar3: bool) {
    let mut arr = [0u8; 16];
    let mut len = 0;
    if with_bom {
        arr[0] = 0xEF; arr[1] = 0xBB; arr[2] = 0xBF;
        len = 3;
    }
    let payload_start = len;
    if second_feff {
        arr[len] = 0xEF; arr[len + 1] = 0xBB; arr[len + 2] = 0xBF;
        len += 3;
    }
    let mut k = 0;
    while k < n {
        let b: u8 = kani::any();
        kani::assume(b < 0x80);
        arr[len] = b;
        len += 1;
        k += 1;
    }
    if scalar3 {
        let b0: u8 = kani::any();
        let b1: u8 = kani::any();
        let b2: u8 = kani::any();
        kani::assume((b0 >= 0xE1 && b0 <= 0xEC) || b0 == 0xEE || b0 == 0xEF);
        kani::assume(b1 >= 0x80 && b1 <= 0xBF && b2 >= 0x80 && b2 <= 0xBF);
        kani::assume(with_bom || len > 0 || !(b0 == 0xEF && b1 == 0xBB && b2 == 0xBF));
        arr[len] = b0; arr[len + 1] = b1; arr[len + 2] = b2;
        len += 3;
    }
    // configured encoding differs from what the BOM says: the BOM must win
    let configured = if with_bom { encoding_rs::WINDOWS_1252 } else { encoding_rs::UTF_8 };
    let ff = file_formatter(configured);
    let buf: &'static mut Vec<u8> = Box::leak(Box::new(Vec::with_capacity(32)));
    let r = fh::decode_file(ff, &arr[..len], buf);
    let (bom, contents, enc) = r.ok().expect("valid UTF-8 must decode");
    assert!(enc == encoding_rs::UTF_8);
    assert!(bom.is_some() == with_bom);
    if let Some(b) = bom {
        assert!(b.len() == 3 && b[0] == 0xEF && b[1] == 0xBB && b[2] == 0xBF);
    }
    let c = contents.as_bytes();
    assert!(c.len() == len - payload_start, "decoded text is not exactly the bytes after the BOM");
    let i: usize = kani::any();
    kani::assume(i < c.len());
    assert!(c[i] == arr[payload_start + i], "decoded text differs from the payload");
    cover!(c.len() >= 1, "has_payload");
    std::mem::forget(contents);
}
harness! { fn c17_u2_decode_bom_then_feff_n1() unwind(12) stubs(std::fmt::format => crate::common::stub_fmt_format, encoding_rs::Encoding::decode_without_bom_handling => crate::c17::stub_decode_without_bom_handling, encoding_rs::Encoding::decode_with_bom_removal => crate::c17::stub_decode_with_bom_removal, encoding_rs::Encoding::decode => crate::c17::stub_decode) { u2_body(true, true, 1) } }
harness! { fn c17_u2_decode_bom_n2() unwind(12) stubs(std::fmt::format => crate::common::stub_fmt_format, encoding_rs::Encoding::decode_without_bom_handling => crate::c17::stub_decode_without_bom_handling, encoding_rs::Encoding::decode_with_bom_removal => crate::c17::stub_decode_with_bom_removal, encoding_rs::Encoding::decode => crate::c17::stub_decode) { u2_body(true, false, 2) } }
harness! { fn c17_u2_decode_nobom_n2() unwind(12) stubs(std::fmt::format => crate::common::stub_fmt_format, encoding_rs::Encoding::decode_without_bom_handling => crate::c17::stub_decode_without_bom_handling, encoding_rs::Encoding::decode_with_bom_removal => crate::c17::stub_decode_with_bom_removal, encoding_rs::Encoding::decode => crate::c17::stub_decode) { u2_body(false, false, 2) } }
harness! { fn c17_u2_decode_nobom_scalar3() unwind(12) stubs(std::fmt::format => crate::common::stub_fmt_format, encoding_rs::Encoding::decode_without_bom_handling => crate::c17::stub_decode_without_bom_handling, encoding_rs::Encoding::decode_with_bom_removal => crate::c17::stub_decode_with_bom_removal, encoding_rs::Encoding::decode => crate::c17::stub_decode) { u2_body_s(false, false, 0, true) } }
harness! { fn c17_u2_decode_bom_scalar3() unwind(12) stubs(std::fmt::format => crate::common::stub_fmt_format, encoding_rs::Encoding::decode_without_bom_handling => crate::c17::stub_decode_without_bom_handling, encoding_rs::Encoding::decode_with_bom_removal => crate::c17::stub_decode_with_bom_removal, encoding_rs::Encoding::decode => crate::c17::stub_decode) { u2_body_s(true, false, 1, true) } }

// Contract models of encoding_rs's decode entry points for UTF-8 input that the harness knows to
// be valid (the library's validation loops are too expensive to encode, measured: no verdict in
// 25 min on 7 bytes). Documented contracts: `decode_without_bom_handling` decodes every byte it
// is given; `decode_with_bom_removal` first removes *this encoding's* BOM if present; `decode`
// sniffs any BOM. pasfmt must hand the payload after the sniffed BOM to the first one.
pub fn stub_decode_without_bom_handling<'a>(enc: &'static encoding_rs::Encoding, bytes: &'a [u8]) -> (std::borrow::Cow<'a, str>, bool) {
    assert!(enc == encoding_rs::UTF_8, "model covers UTF-8 only");
    (std::borrow::Cow::Borrowed(unsafe { std::str::from_utf8_unchecked(bytes) }), false)
}
pub fn stub_decode_with_bom_removal<'a>(enc: &'static encoding_rs::Encoding, bytes: &'a [u8]) -> (std::borrow::Cow<'a, str>, bool) {
    assert!(enc == encoding_rs::UTF_8, "model covers UTF-8 only");
    let b = if bytes.len() >= 3 && bytes[0] == 0xEF && bytes[1] == 0xBB && bytes[2] == 0xBF { &bytes[3..] } else { bytes };
    (std::borrow::Cow::Borrowed(unsafe { std::str::from_utf8_unchecked(b) }), false)
}
pub fn stub_decode<'a>(enc: &'static encoding_rs::Encoding, bytes: &'a [u8]) -> (std::borrow::Cow<'a, str>, &'static encoding_rs::Encoding, bool) {
    let (c, e) = stub_decode_with_bom_removal(enc, bytes);
    (c, enc, e)
}
