//! C02 -- well-formed code re-scans to the same tokens (unit level).
use crate::common::*;
use crate::rmodel::*;
use crate::spacing::*;
use crate::{cover, harness, recon_harness};
use pasfmt_core::lang::*;
use pasfmt_core::prelude::OptimisingLineFormatterSettings;
use pasfmt_core::rules::optimising_line_formatter::verif_hooks_olf as olf_hooks;

fn is_number(k: TokenType) -> bool {
    matches!(k, TokenType::NumberLiteral(_))
}

/// H1: the wrapper's hard invariants, real `get_formatting_invariant` for every (previous kind,
/// current kind) pair of one logical line [prev, cur]:
///  * MustNotBreak before an inline comment,
///  * MustBreak before individual/multi-line comments and multi-line string literals,
///  * MustBreak after line comments, multi-line block comments and unterminated literals
///    (unless the current token is an inline comment, which cannot follow a line break).
harness! {
    fn c02_h1_break_invariants_all_kind_pairs() unwind(5) {
        let settings = OptimisingLineFormatterSettings { max_line_length: 120, iteration_max: 10, break_before_begin: kani::any(), format_multiline_strings: kani::any() };
        let rs = recon_settings(false, false, 2, 4);
        let prev = any_token_type();
        let cur = any_token_type();
        let tokens = vec![tok("ab", 0, prev), tok("cd", 0, cur)];
        let mut ft = FormattedTokens::verif_new(leak_tokens(tokens), vec![fd(false, 0, 0, 0, 0), fd(false, 0, 0, 0, 1)]);
        let line = LogicalLine::new(None, 0, vec![0, 1], pick(&crate::gen_tables::ALL_LINE_TYPES));
        let inv = olf_hooks::formatting_invariant(&settings, &rs, &mut ft, &line, 1);
        const MUST_BREAK: u8 = 3;
        const MUST_NOT_BREAK: u8 = 4;
        use CommentKind as CK;
        let cur_inline = matches!(cur, TokenType::Comment(CK::InlineLine | CK::InlineBlock));
        let cur_own_line = matches!(cur, TokenType::Comment(CK::IndividualLine | CK::IndividualBlock | CK::MultilineBlock) | TokenType::TextLiteral(TextLiteralKind::MultiLine));
        let prev_ends_line = matches!(prev, TokenType::Comment(CK::IndividualLine | CK::InlineLine | CK::MultilineBlock) | TokenType::TextLiteral(TextLiteralKind::Unterminated));
        if cur_inline {
            assert!(inv == MUST_NOT_BREAK);
        } else if cur_own_line || prev_ends_line {
            assert!(inv == MUST_BREAK, "a line break is not forced where the token would be absorbed");
        } else {
            assert!(inv != MUST_BREAK || matches!(prev, TokenType::ConditionalDirective(_)));
        }
        // first token of a line: never an invariant break (the line start is decided by the parent)
        let inv0 = olf_hooks::formatting_invariant(&settings, &rs, &mut ft, &line, 0);
        assert!(inv0 == MUST_NOT_BREAK || inv0 == MUST_BREAK || inv0 == 0);
        cover!(prev_ends_line && !cur_inline, "break_after_line_comment");
        cover!(cur_own_line, "break_before_own_line_token");
        std::mem::forget(ft);
        std::mem::forget(line);
    }
}

/// H2: last-resort safety net of the real reconstructor: whatever the counters say (and for
/// ignored tokens under the lexer contract K-LEX: the whitespace after a line comment starts
/// with CR or LF), a single-line comment is followed by a line break before the next token's
/// content -- never by that content on the same line.
fn h2_body(hard: bool, iw: u8, cw: u8, ign_ws: usize) {
    let s = Settings { crlf: kani::any(), hard, iw, cw };
    let a_kind = TokenType::Comment(if kani::any() { CommentKind::InlineLine } else { CommentKind::IndividualLine });
    let zero = Counters { ignored: false, nl: 0, ind: 0, cont: 0, sp: 0 };
    let mut cb = any_counters(2, 2);
    let mut b_text = "Cd";
    if ign_ws > 0 {
        // `ignored` symbolic: a formatted token's original whitespace is discarded, an ignored
        // token's is re-emitted
        cb.ignored = kani::any();
        b_text = text_with_ws(ign_ws, &[b' ', b'\n', b'\r', b'\t'], b"Cd");
        kani::assume(b_text.as_bytes()[0] == b'\n' || b_text.as_bytes()[0] == b'\r');
    }
    let toks = [
        RTok { text: "//b", ws_len: 0, kind: a_kind, c: zero },
        RTok { text: b_text, ws_len: ign_ws as u32, kind: any_token_type(), c: cb },
        RTok { text: "", ws_len: 0, kind: TokenType::Eof, c: Counters { ignored: false, nl: 1, ind: 0, cont: 0, sp: 0 } },
    ];
    kani::assume(toks[1].kind != TokenType::Eof);
    let out = run3_raw(&toks, s);
    // "//b" is at 0..3; the next content starts where "Cd" starts: scan-free statement through
    // the reference layout for the position, then a direct look at the real bytes in between
    let l = layout3(&toks, &s, out);
    assert!(out.len() == l.len);
    assert!(out[l.start[1]] == b'C' && out[l.start[1] + 1] == b'd');
    assert!(l.start[1] > 3, "token glued to the line comment");
    // there is a CR or LF somewhere in out[3..start]: at the first byte (all our shapes put the
    // break first) or anywhere, decided by one symbolic witness position
    let first = out[3];
    let has_break_first = first == b'\n' || first == b'\r';
    if !has_break_first {
        // otherwise some later byte of the gap must be a line break: existential, so enumerate
        let mut found = false;
        let mut k = 4;
        while k < l.start[1] {
            found |= out[k] == b'\n' || out[k] == b'\r';
            k += 1;
        }
        assert!(found, "no line break between a line comment and the next token");
    }
    cover!(!cb.ignored && cb.nl == 0, "safety_net_fired");
    if ign_ws > 0 { cover!(cb.ignored, "ignored_token"); }
}
macro_rules! h2 { ($($name: ident => ($h: expr, $iw: expr, $cw: expr, $ig: expr)),*) => {$(
    recon_harness! { fn $name() unwind(12) { h2_body($h, $iw, $cw, $ig) } }
)*}}
h2! {
    c02_h2_safety_net_soft => (false, 2, 4, 0),
    c02_h2_safety_net_ignored_ws1 => (false, 2, 2, 1),
    c02_h2_safety_net_ignored_ws2_hard => (true, 1, 1, 2)
}

/// H3: spacing never glues words: after the real `TokenSpacing::format`, for every neighbour
/// kinds and every original spacing, two adjacent word-like tokens (identifier / keyword, a
/// number before a keyword, a keyword before a number or text literal) are separated by exactly
/// one space. (Pairs that only occur in ill-formed code, e.g. number + identifier, are excluded.)
fn h3_body<const N: usize>(pos: usize) {
    let mut kinds = [TokenType::Identifier; N];
    let mut k = 0;
    while k < N {
        kinds[k] = any_token_type();
        k += 1;
    }
    let (a, b) = (kinds[pos - 1], kinds[pos]);
    let wordy = (is_word(a) && is_word(b))
        || (is_number(a) && matches!(b, TokenType::Keyword(_)))
        || (matches!(a, TokenType::Keyword(_)) && (is_number(b) || matches!(b, TokenType::TextLiteral(_))));
    kani::assume(wordy);
    // `inherited`-style keywords before brackets etc. are not word pairs; generic closers excluded by kind
    let o = any_orig::<N>();
    let r = run_spacing(&kinds, &o);
    assert!(r[pos] == 1, "adjacent word-like tokens are not separated by exactly one space");
    cover!(is_number(a), "number_then_keyword");
    cover!(a == TokenType::Identifier && b == TokenType::Identifier, "ident_ident");
}
harness! { fn c02_h3_words_never_glued_pos1of3() unwind(6) { h3_body::<3>(1) } }
harness! { fn c02_h3_words_never_glued_pos2of3() unwind(6) { h3_body::<3>(2) } }
harness! { fn c02_h3_words_never_glued_pos2of4() unwind(7) { h3_body::<4>(2) } }

/// H4: the directive normalisation (upper-casing the name) cannot change the token kind: the
/// real `conditional_directive_type` gives the same answer for a name and its upper-cased form.
fn h4_body(n: usize) {
    use pasfmt_core::defaults::lexer::verif_hooks_lexer as lx;
    let mut lo = Vec::with_capacity(n + 1);
    let mut up = Vec::with_capacity(n + 1);
    let mut k = 0;
    while k < n {
        let c = pick(&[b'i', b'f', b'd', b'e', b'n', b'o', b'p', b't', b'l', b's', b'I', b'F', b'D', b'E', b'N', b'x', b'1', b'_']);
        lo.push(c);
        up.push(c.to_ascii_uppercase());
        k += 1;
    }
    lo.push(b'}');
    up.push(b'}');
    let a = lx::conditional_directive_type(leak_str(lo), 0);
    let b = lx::conditional_directive_type(leak_str(up), 0);
    assert!(a.0 == b.0 && a.1 == b.1);
    assert!(a.0 == n);
    cover!(a.1 == Some(ConditionalDirectiveKind::Ifdef), "ifdef");
    cover!(a.1.is_none(), "not_conditional");
}
harness! { fn c02_h4_directive_kind_case_insensitive_len2() unwind(10) { h4_body(2) } }
harness! { fn c02_h4_directive_kind_case_insensitive_len5() unwind(10) { h4_body(5) } }
harness! { fn c02_h4_directive_kind_case_insensitive_len6() unwind(10) { h4_body(6) } }
