//! C07 -- verbatim regions: toggle recogniser, region marking, rules respect the flag, emission.
use crate::common::*;
use crate::rmodel::*;
use crate::{cover, harness, recon_harness, str_harness, note};
use pasfmt_core::formatter::TokenMarker;
use pasfmt_core::lang::*;
use pasfmt_core::prelude::{CommentFormatter, FormattingToggler, IgnoreAsmIstructions};
use pasfmt_core::rules::formatting_toggle::verif_hooks_toggle::parse_toggle;
use pasfmt_core::traits::{LogicalLineFileFormatter, TokenIgnorer};

fn is_ascii_ws(b: u8) -> bool {
    b == b' ' || b == b'\t' || b == b'\n' || b == 0x0c || b == b'\r'
}

/// Reference for the toggle syntax: opener, optional blanks, `pasfmt` (any case), at least one
/// blank, then the maximal alphanumeric word must be exactly on/off (any case).
fn ref_toggle(s: &[u8], opener_len: usize) -> Option<bool> {
    let mut i = opener_len;
    while i < s.len() && is_ascii_ws(s[i]) {
        i += 1;
    }
    let p = b"pasfmt";
    if i + 6 > s.len() {
        return None;
    }
    let mut k = 0;
    while k < 6 {
        if s[i + k].to_ascii_lowercase() != p[k] {
            return None;
        }
        k += 1;
    }
    i += 6;
    let ws_start = i;
    while i < s.len() && is_ascii_ws(s[i]) {
        i += 1;
    }
    if i == ws_start {
        return None;
    }
    let w = i;
    while i < s.len() && s[i].is_ascii_alphanumeric() {
        i += 1;
    }
    let word = &s[w..i];
    if word.len() == 2 && word[0].to_ascii_lowercase() == b'o' && word[1].to_ascii_lowercase() == b'n' {
        Some(true)
    } else if word.len() == 3 && word[0].to_ascii_lowercase() == b'o' && word[1].to_ascii_lowercase() == b'f' && word[2].to_ascii_lowercase() == b'f' {
        Some(false)
    } else {
        None
    }
}

/// I1: real `parse_toggle` == reference on structured symbolic comments.
fn i1_body(opener: &'static [u8], lead_blanks: usize, word_len: usize) {
    let mut v = Vec::with_capacity(opener.len() + lead_blanks + 6 + 2 + word_len);
    let mut k = 0;
    while k < opener.len() { v.push(opener[k]); k += 1; }
    let mut k = 0;
    while k < lead_blanks { v.push(pick(&[b' ', b'\t', b'\n', b'x'])); k += 1; }
    let p = b"pasfmt";
    let mut k = 0;
    while k < 6 {
        let c: u8 = kani::any();
        kani::assume(c == p[k] || c == p[k].to_ascii_uppercase() || c == b'x');
        v.push(c);
        k += 1;
    }
    v.push(pick(&[b' ', b'\t', b'x', b'o']));
    v.push(pick(&[b' ', b'\n', b'o', b'O']));
    let mut k = 0;
    while k < word_len { v.push(pick(&[b'o', b'O', b'n', b'N', b'f', b'F', b'x', b'1', b'}', b' ', b'*'])); k += 1; }
    let text = leak_str(v);
    let got = parse_toggle(text);
    let want = ref_toggle(text.as_bytes(), opener.len());
    assert!(got == want, "toggle recogniser differs from the reference");
    cover!(want == Some(true), "on");
    cover!(want == Some(false), "off");
}
macro_rules! i1 { ($($name: ident => ($op: expr, $lb: expr, $wl: expr)),*) => {$(
    harness! { fn $name() unwind(16) stubs(std::fmt::format => crate::common::stub_fmt_format) { i1_body($op, $lb, $wl) } }
)*}}
i1! {
    c07_i1_toggle_slashes_b0_w2 => (b"//", 0, 2),
    c07_i1_toggle_brace_b1_w3 => (b"{", 1, 3),
    c07_i1_toggle_parenstar_b2_w3 => (b"(*", 2, 3),
    c07_i1_toggle_brace_b0_w4 => (b"{", 0, 4),
    c07_i1_toggle_slashes_b1_w4 => (b"//", 1, 4)
}

const ROLE_TEXT: [&str; 4] = ["{pasfmt off}", "{pasfmt on}", "{x}", "ab"];

/// I2: real `FormattingToggler::ignore_tokens`: marked == everything from an `off` comment up to
/// and including the next `on` comment, plus lone `on` comments.
fn i2_body(n: usize) {
    let mut roles = [3usize; 5];
    let mut tokens = Vec::with_capacity(n);
    let mut k = 0;
    while k < n {
        let r: usize = kani::any();
        kani::assume(r < 4);
        roles[k] = r;
        let kind = if r == 3 { TokenType::Identifier } else { TokenType::Comment(CommentKind::InlineBlock) };
        tokens.push(tok(ROLE_TEXT[r], 0, kind));
        k += 1;
    }
    let tokens = leak_tokens(tokens);
    let mut marker = TokenMarker::default();
    FormattingToggler {}.ignore_tokens((tokens, &[]), &mut marker);
    let mut ignored = false;
    let mut k = 0;
    while k < n {
        let mut want = false;
        match roles[k] {
            0 => { ignored = true; want = true; }
            1 => { ignored = false; want = true; }
            _ => {}
        }
        want |= ignored;
        assert!(marker.is_marked(&k) == want, "marked set differs from the region");
        k += 1;
    }
    cover!(roles[0] == 0 && roles[n - 1] == 1, "off_then_on");
    std::mem::forget(marker);
}
harness! { fn c07_i2_region_marking_3tokens() unwind(16) stubs(std::fmt::format => crate::common::stub_fmt_format, pasfmt_core::formatter::TokenMarker::mark => crate::common::stub_marker_mark, pasfmt_core::formatter::TokenMarker::is_marked => crate::common::stub_marker_is_marked) { i2_body(3) } }
harness! { fn c07_i2_region_marking_4tokens() unwind(16) stubs(std::fmt::format => crate::common::stub_fmt_format, pasfmt_core::formatter::TokenMarker::mark => crate::common::stub_marker_mark, pasfmt_core::formatter::TokenMarker::is_marked => crate::common::stub_marker_is_marked) { i2_body(4) } }

/// I3a: the structural guard behind K-IGN: `tokens_mut` / `get_token_mut` hand out a mutable
/// token exactly for the tokens that are not ignored (the token slice itself is private).
harness! {
    fn c07_i3_mut_access_guard() unwind(6) {
        let ig: [bool; 3] = [kani::any(), kani::any(), kani::any()];
        let tokens = vec![tok("ab", 0, any_token_type()), tok("cd", 0, any_token_type()), tok("", 0, TokenType::Eof)];
        let mut ft = FormattedTokens::verif_new(leak_tokens(tokens), vec![fd(ig[0], 0, 0, 0, 0), fd(ig[1], 0, 0, 0, 0), fd(ig[2], 0, 0, 0, 0)]);
        let mut k = 0;
        for (t, f) in ft.tokens_mut() {
            assert!(t.is_err() == ig[k] && f.is_ignored() == ig[k]);
            k += 1;
        }
        assert!(k == 3);
        let i: usize = kani::any();
        kani::assume(i < 3);
        let (t, _) = ft.get_token_mut(i).unwrap();
        assert!(t.is_err() == ig[i]);
        assert!(ft.get_token_mut(3).is_none());
        cover!(ig[0] && !ig[1], "mixed");
        std::mem::forget(ft);
    }
}

/// I3b: the real `CommentFormatter::format` leaves an ignored comment / directive untouched
/// (content that the rule would otherwise rewrite: `//x ` and `{$ifdef x}`).
fn i3_body(directive: bool) {
    let (text, kind) = if directive {
        (" {$ifdef x}", TokenType::ConditionalDirective(ConditionalDirectiveKind::Ifdef))
    } else {
        (" //x ", TokenType::Comment(CommentKind::InlineLine))
    };
    // concrete: with a symbolic flag CBMC explores both rewriting rules on top (kinds read back
    // from the heap are not constant-propagated) and runs out of memory; the not-ignored
    // direction is C01/P2, P3
    let ignored = true;
    let tokens = vec![tok(text, 1, kind)];
    let mut ft = FormattedTokens::verif_new(leak_tokens(tokens), vec![fd(ignored, kani::any(), kani::any(), kani::any(), kani::any())]);
    CommentFormatter {}.format(&mut ft, &[]);
    let (t, f) = ft.get_token(0).unwrap();
    assert!(f.is_ignored() == ignored);
    let unchanged = pasfmt_core::lang::verif_hooks_lang::token_ws_len(t) == 1 && bytes_eq(t.get_content().as_bytes(), &text.as_bytes()[1..]);
    assert!(unchanged == ignored, "ignored => untouched; not ignored => normalised");
    cover!(unchanged, "untouched");
    std::mem::forget(ft);
}
str_harness! { fn c07_i3_comment_rule_respects_flag() unwind(14) { i3_body(false) } }
str_harness! { fn c07_i3_directive_rule_respects_flag() unwind(14) { i3_body(true) } }

/// I4: emission. A fully ignored region (line comment, a token, EOF; the whitespace of the
/// latter two symbolic over space/tab/CR/LF under the lexer contract K-LEX: what follows a line
/// comment starts with CR or LF) is emitted byte for byte: output == concatenation of the
/// original token texts, whatever the counters and settings.
fn i4_body(ws_b: usize, hard: bool, iw: u8, cw: u8) {
    let s = Settings { crlf: kani::any(), hard, iw, cw };
    let table = [b' ', b'\n', b'\r', b'\t'];
    let b_text = text_with_ws(ws_b, &table, b"Cd");
    kani::assume(b_text.as_bytes()[0] == b'\n' || b_text.as_bytes()[0] == b'\r');
    let e_text = text_with_ws(1, &table, b"");
    let mut ca = any_counters(2, 2);
    let mut cb = any_counters(2, 2);
    let mut ce = any_counters(2, 2);
    ca.ignored = true;
    cb.ignored = true;
    ce.ignored = true;
    let a_kind = TokenType::Comment(if kani::any() { CommentKind::InlineLine } else { CommentKind::IndividualLine });
    let toks = [
        RTok { text: "//b", ws_len: 0, kind: a_kind, c: ca },
        RTok { text: b_text, ws_len: ws_b as u32, kind: TokenType::Identifier, c: cb },
        RTok { text: e_text, ws_len: 1, kind: TokenType::Eof, c: ce },
    ];
    let out = run3_raw(&toks, s);
    note!("b_ws_first", b_text.as_bytes()[0]);
    note!("b_ws_has_lf", contains_byte(&b_text.as_bytes()[..ws_b], b'\n'));
    let total = 3 + b_text.len() + e_text.len();
    assert!(out.len() == total, "verbatim region: length differs (bytes inserted or dropped)");
    let i: usize = kani::any();
    kani::assume(i < total);
    let want = if i < 3 { b"//b"[i] } else if i < 3 + b_text.len() { b_text.as_bytes()[i - 3] } else { e_text.as_bytes()[i - 3 - b_text.len()] };
    assert!(out[i] == want, "verbatim region: byte differs");
    cover!(b_text.as_bytes()[0] == b'\r', "cr_after_comment");
}
macro_rules! i4 { ($($name: ident => ($w: expr, $h: expr, $iw: expr, $cw: expr)),*) => {$(
    recon_harness! { fn $name() unwind(8) { i4_body($w, $h, $iw, $cw) } }
)*}}
i4! {
    c07_i4_emit_verbatim_ws1 => (1, false, 2, 4),
    c07_i4_emit_verbatim_ws2 => (2, false, 2, 4),
    c07_i4_emit_verbatim_ws2_hard => (2, true, 1, 2)
}

/// I5: real `IgnoreAsmIstructions::ignore_tokens`: exactly the tokens of `AsmInstruction` lines.
harness! {
    fn c07_i5_asm_lines_marked() unwind(8) stubs(pasfmt_core::formatter::TokenMarker::mark => crate::common::stub_marker_mark, pasfmt_core::formatter::TokenMarker::is_marked => crate::common::stub_marker_is_marked) {
        let tokens = leak_tokens(vec![tok("a", 0, TokenType::Identifier), tok("b", 0, TokenType::Identifier), tok("c", 0, TokenType::Identifier), tok("d", 0, TokenType::Identifier)]);
        let lt0 = pick(&crate::gen_tables::ALL_LINE_TYPES);
        let lt1 = pick(&crate::gen_tables::ALL_LINE_TYPES);
        let lines = vec![LogicalLine::new(None, 0, vec![0, 1], lt0), LogicalLine::new(None, 0, vec![2, 3], lt1)];
        let mut marker = TokenMarker::default();
        IgnoreAsmIstructions.ignore_tokens((tokens, &lines), &mut marker);
        let a0 = lt0 == LogicalLineType::AsmInstruction;
        let a1 = lt1 == LogicalLineType::AsmInstruction;
        assert!(marker.is_marked(&0) == a0 && marker.is_marked(&1) == a0);
        assert!(marker.is_marked(&2) == a1 && marker.is_marked(&3) == a1);
        cover!(a0 && !a1, "first_line_asm");
        std::mem::forget(marker);
        std::mem::forget(lines);
    }
}
