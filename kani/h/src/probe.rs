//! constant-propagation probes
#[cfg(kani)]
#[kani::proof]
#[kani::unwind(8)]
pub fn probe_vec_const() {
    let v = vec![3usize];
    let n = v[0];
    let mut k = 0;
    while k < n { k += 1; }
    assert!(k == 3);
}
#[cfg(kani)]
#[kani::proof]
#[kani::unwind(8)]
pub fn probe_box_const() {
    let v = Box::new(3usize);
    let n = *v;
    let mut k = 0;
    while k < n { k += 1; }
    assert!(k == 3);
}
#[cfg(kani)]
#[kani::proof]
#[kani::unwind(8)]
pub fn probe_vec_str() {
    let v = vec!["abc"];
    let s = v[0];
    let mut k = 0;
    for b in s.bytes() { if b == b'c' { k += 1; } }
    assert!(k == 1);
}
#[cfg(kani)]
#[kani::proof]
#[kani::unwind(8)]
pub fn probe_arr_str() {
    let v = ["abc"];
    let s = v[0];
    let mut k = 0;
    for b in s.bytes() { if b == b'c' { k += 1; } }
    assert!(k == 1);
}

#[cfg(kani)]
#[kani::proof]
#[kani::unwind(8)]
#[kani::stub(core::slice::memchr::memchr, crate::common::stub_memchr_16)]
pub fn probe_split_empty_tail() {
    let s = "{a\n b}";
    let t = &s[6..];
    let rc = t.split('\n').next().map(|l| l.len()).unwrap_or(t.len());
    let n = t.split('\n').count();
    assert!(rc == 0 && n == 1);
}
#[cfg(kani)]
#[kani::proof]
#[kani::unwind(8)]
#[kani::stub(core::slice::memchr::memchr, crate::common::stub_memchr_16)]
pub fn probe_split_tail1() {
    let s = "{a\n b}";
    let t = &s[5..];
    let rc = t.split('\n').next().map(|l| l.len()).unwrap_or(t.len());
    let n = t.split('\n').count();
    assert!(rc == 1 && n == 1);
}

#[cfg(kani)]
#[kani::proof]
#[kani::unwind(8)]
#[kani::stub(core::slice::memchr::memchr, crate::common::stub_memchr_16)]
pub fn probe_split_empty_tail_padded() {
    let s0 = "{a\n b}X";
    let s = &s0[..6];
    let t = &s[6..];
    let rc = t.split('\n').next().map(|l| l.len()).unwrap_or(t.len());
    let n = t.split('\n').count();
    assert!(rc == 0 && n == 1);
}
