//! constant-propagation probes
#[cfg(kani)]
#[kani::proof]
#[kani::unwind(8)]
pub fn probe_vec_const() {
    let v = vec![3usize];
    let n = v[0];
    let mut k = 0;
    while k < n { k += 1; }
    assert!(k == 3);
}
#[cfg(kani)]
#[kani::proof]
#[kani::unwind(8)]
pub fn probe_box_const() {
    let v = Box::new(3usize);
    let n = *v;
    let mut k = 0;
    while k < n { k += 1; }
    assert!(k == 3);
}
#[cfg(kani)]
#[kani::proof]
#[kani::unwind(8)]
pub fn probe_vec_str() {
    let v = vec!["abc"];
    let s = v[0];
    let mut k = 0;
    for b in s.bytes() { if b == b'c' { k += 1; } }
    assert!(k == 1);
}
#[cfg(kani)]
#[kani::proof]
#[kani::unwind(8)]
pub fn probe_arr_str() {
    let v = ["abc"];
    let s = v[0];
    let mut k = 0;
    for b in s.bytes() { if b == b'c' { k += 1; } }
    assert!(k == 1);
}
