//! C10 — indentation settings only re-render indentation.
use crate::common::*;
use crate::{cover, harness, instances, note};
use pasfmt::verif_hooks_config::config;
use pasfmt_core::lang::*;

/// Every byte of `s` is `b`, decided through one symbolic index (no loop).
fn all_bytes_are(s: &str, b: u8) -> bool {
    let i: usize = kani::any();
    kani::assume(i < s.len());
    s.as_bytes()[i] == b
}

harness! {
    /// A1: the real `From<&FormattingConfig> for ReconstructionSettings` for *every*
    /// (use_tabs, tab_width, continuation_indents, line_ending): the indentation unit is one tab
    /// or `tab_width` spaces and a continuation is exactly `continuation_indents` units, so that
    /// expanding tabs to `tab_width` spaces maps the tabs rendering onto the spaces rendering.
    fn c10_a1_settings_to_strings() unwind(2) stubs(str::repeat => crate::common::stub_str_repeat_len_only) {
        let use_tabs: bool = kani::any();
        let tw: u8 = kani::any();
        let ci: u8 = kani::any();
        let crlf: bool = kani::any();
        let cfg = config(kani::any(), kani::any(), kani::any(), use_tabs, tw, ci, crlf);
        note!("use_tabs", use_tabs);
        note!("tab_width", tw);
        note!("continuation_indents", ci);
        let rs: ReconstructionSettings = (&cfg).into();
        let ind = rs.get_indentation_str();
        let cont = rs.get_continuation_str();
        assert!(rs.get_newline_str().len() == if crlf { 2 } else { 1 });
        if use_tabs {
            assert!(ind.len() == 1);
            assert!(cont.len() == ci as usize);
            cover!(ci == 255, "tabs_ci_max");
        } else {
            assert!(ind.len() == tw as usize);
            // continuation = continuation_indents units of tab_width spaces
            assert!(cont.len() == ci as usize * tw as usize, "continuation width");
            cover!(tw as usize * ci as usize == 255, "spaces_product_255");
        }
        std::mem::forget(rs);
    }
}

/// Byte-exact check of the two indentation strings (all parameters concrete: anything that
/// feeds an allocation size has to be, or the solver drowns in symbolic-size objects).
fn a2_body(hard: bool, iw: u8, cw: u8) {
    let crlf: bool = kani::any();
    let rs = recon_settings(crlf, hard, iw, cw);
    let unit = if hard { b'\t' } else { b' ' };
    let ind = rs.get_indentation_str().as_bytes();
    let cont = rs.get_continuation_str().as_bytes();
    assert!(ind.len() == iw as usize && cont.len() == cw as usize);
    let mut i = 0;
    while i < ind.len() {
        assert!(ind[i] == unit);
        i += 1;
    }
    let mut i = 0;
    while i < cont.len() {
        assert!(cont[i] == unit);
        i += 1;
    }
    assert!(rs.get_newline_str().len() == if crlf { 2 } else { 1 });
    cover!(crlf, "crlf");
    std::mem::forget(rs);
}

// A2: `ReconstructionSettings::new` renders `width` copies of the unit character, byte by byte.
instances! { a2_body, unwind(8);
    c10_a2_new_soft_w0_w3 => (false, 0, 3),
    c10_a2_new_soft_w2_w4 => (false, 2, 4),
    c10_a2_new_hard_w1_w2 => (true, 1, 2),
    c10_a2_new_hard_w5_w0 => (true, 5, 0),
}

harness! {
    /// A3a: the length the wrapper charges for `(indentations, continuations)` is computed
    /// without overflow and equals indentations x |unit| + continuations x |continuation| for
    /// *every* u16 x u16 and every configuration-derived pair of strings.
    fn c10_a3_linewhitespace_len_arith() unwind(2) stubs(str::repeat => crate::common::stub_str_repeat_len_only) {
        let cfg = config(kani::any(), kani::any(), kani::any(), kani::any(), kani::any(), kani::any(), kani::any());
        let rs: ReconstructionSettings = (&cfg).into();
        let ind: u16 = kani::any();
        let cont: u16 = kani::any();
        let got = pasfmt_core::rules::optimising_line_formatter::verif_hooks_olf::line_whitespace_len(ind, cont, &rs);
        let want = ind as u64 * rs.get_indentation_str().len() as u64
            + cont as u64 * rs.get_continuation_str().len() as u64;
        assert!(got as u64 == want);
        cover!(want > 30_000_000, "large_value");
        std::mem::forget(rs);
    }
}

fn a3b_body(hard: bool, iw: u8, cw: u8) {
    let crlf: bool = kani::any();
    let ind = any_upto(3);
    let cont = any_upto(3);
    let rs = recon_settings(crlf, hard, iw, cw);
    let want = pasfmt_core::rules::optimising_line_formatter::verif_hooks_olf::line_whitespace_len(ind, cont, &rs);
    let out = run_reconstruct(
        rs,
        vec![tok("ab", 0, TokenType::Identifier)],
        vec![fd(false, 0, ind, cont, 0)],
    );
    assert!(out.len() == want as usize + 2);
    cover!(ind == 3 && cont == 3, "max_counters");
}

// A3b: that length is the number of bytes the reconstructor really emits before the token
// (counters 0..=3 symbolic, concrete widths).
instances! { a3b_body, unwind(6);
    c10_a3_len_equals_emitted_soft_w2_w4 => (false, 2, 4),
    c10_a3_len_equals_emitted_hard_w1_w3 => (true, 1, 3),
}

/// A4 body. `expand(t) == s` is decided pointwise by index arithmetic instead of a byte loop
/// (loops over a symbolic-length output cost minutes, a symbolic index costs seconds):
///  (1) the tabs of `t` are exactly the zone right after the line break (so "every leading tab"
///      is that zone), (2) `s` is `t` with that zone replaced by `tw` spaces per tab.
/// Contract assumed (K-OLF, guaranteed by C08/S3): a token that continues a line has no
/// indentation/continuation counters.
fn a4_body(tw: u8, ci: u8) {
    let crlf: bool = kani::any();
    let nl = any_upto(2);
    let ind = any_upto(2);
    let cont = any_upto(2);
    let sp = any_upto(1);
    kani::assume(nl > 0 || (ind == 0 && cont == 0));
    kani::assume(nl == 0 || sp == 0);
    let run = |tabs: bool| {
        let cfg = config(120, false, true, tabs, tw, ci, crlf);
        let rs: ReconstructionSettings = (&cfg).into();
        run_reconstruct(
            rs,
            vec![tok("ab", 0, TokenType::Identifier), tok("cd", 0, TokenType::Identifier), tok("", 0, TokenType::Eof)],
            vec![fd(false, 0, 0, 0, 0), fd(false, nl, ind, cont, sp), fd(false, 1, 0, 0, 0)],
        )
    };
    let t = run(true).as_bytes();
    let s = run(false).as_bytes();
    let tw = tw as usize;
    let nl_len = if crlf { 2 } else { 1 };
    let zone_start = 2 + nl as usize * nl_len;
    let ntabs = ind as usize + cont as usize * ci as usize;
    let zone_end = zone_start + ntabs;
    assert!(s.len() == t.len() + ntabs * tw - ntabs);
    let i: usize = kani::any();
    kani::assume(i < t.len());
    let in_zone = zone_start <= i && i < zone_end;
    // (1) tabs are exactly the zone, and the zone starts a line
    assert!((t[i] == b'\t') == in_zone);
    if ntabs > 0 {
        assert!(t[zone_start - 1] == b'\n');
    }
    // (2) pointwise image under the expansion
    if i < zone_start {
        assert!(s[i] == t[i]);
    } else if in_zone {
        let m: usize = kani::any();
        kani::assume(m < tw);
        assert!(s[zone_start + (i - zone_start) * tw + m] == b' ');
    } else {
        assert!(s[i + ntabs * tw - ntabs] == t[i]);
    }
    cover!(nl > 0 && ind == 2 && cont == 2, "deep_indent");
    cover!(nl == 0 && sp == 1, "same_line");
    cover!(in_zone, "index_in_zone");
}

// A4: two runs of the real settings conversion + real `reconstruct` on the same tokens and
// symbolic counters, `use_tabs` true vs false: replacing every leading tab by `tab_width`
// spaces maps one output onto the other (concrete tab_width / continuation_indents).
macro_rules! a4 { ($($name: ident => ($tw: expr, $ci: expr)),*) => {$(
    harness! {
        fn $name() unwind(8) stubs(std::string::String::push_str => crate::common::stub_push_str, std::string::String::push => crate::common::stub_push) { a4_body($tw, $ci) }
    }
)*}}
a4! {
    c10_a4_tabs_vs_spaces_tw2_ci2 => (2, 2),
    c10_a4_tabs_vs_spaces_tw3_ci1 => (3, 1),
    c10_a4_tabs_vs_spaces_tw1_ci3 => (1, 3)
}

