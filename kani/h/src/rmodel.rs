//! Shared driver for the reconstructor harnesses: builds a 3-token state with symbolic counters,
//! runs the *real* `reconstruct`, and decides "output == reference rendering" (obligation R0)
//! through one symbolic index. The reference model is the ten lines in `ref_ws_len`; everything
//! property-specific is asserted by the callers on top of the returned layout.
use crate::common::*;
use pasfmt_core::lang::*;

#[derive(Clone, Copy)]
pub struct Counters {
    pub ignored: bool,
    pub nl: u16,
    pub ind: u16,
    pub cont: u16,
    pub sp: u16,
}

pub fn any_counters(max: u16, max_sp: u16) -> Counters {
    Counters {
        ignored: false,
        nl: any_upto(max),
        ind: any_upto(max),
        cont: any_upto(max),
        sp: any_upto(max_sp),
    }
}

#[derive(Clone, Copy)]
pub struct Settings {
    pub crlf: bool,
    pub hard: bool,
    pub iw: u8,
    pub cw: u8,
}

pub struct RTok {
    /// leading whitespace + content
    pub text: &'static str,
    pub ws_len: u32,
    pub kind: TokenType,
    pub c: Counters,
}

pub struct Layout {
    pub out: &'static [u8],
    /// start of each token's leading whitespace in `out`
    pub ws_start: [usize; 3],
    /// start of each token's content in `out`
    pub start: [usize; 3],
    /// number of bytes the safety net inserted before token k (0 or |newline|)
    pub inserted: [usize; 3],
    /// total length according to the reference model
    pub len: usize,
}

pub fn is_singleline_comment(k: TokenType) -> bool {
    matches!(k, TokenType::Comment(CommentKind::InlineLine | CommentKind::IndividualLine))
}

/// a line break: LF or CR (the lexer ends a line comment at either)
fn contains_lf(s: &[u8]) -> bool {
    let mut i = 0;
    while i < s.len() {
        if s[i] == b'\n' || s[i] == b'\r' {
            return true;
        }
        i += 1;
    }
    false
}

/// Reference: bytes emitted before the content of a token (safety-net part, regular part).
pub fn ref_ws_len(t: &RTok, s: &Settings, must_break: bool) -> (usize, usize) {
    let nl_len = if s.crlf { 2 } else { 1 };
    let is_eof = matches!(t.kind, TokenType::Eof);
    let ws = &t.text.as_bytes()[..t.ws_len as usize];
    if t.c.ignored {
        let ins = if must_break && !contains_lf(ws) && !is_eof { nl_len } else { 0 };
        (ins, ws.len())
    } else {
        let ins = if must_break && t.c.nl == 0 && !is_eof { nl_len } else { 0 };
        (
            ins,
            t.c.nl as usize * nl_len
                + t.c.ind as usize * s.iw as usize
                + t.c.cont as usize * s.cw as usize
                + t.c.sp as usize,
        )
    }
}

/// Runs the real reconstructor on three tokens (no assertions).
pub fn run3_raw(toks: &[RTok; 3], s: Settings) -> &'static [u8] {
    let mut tokens = Vec::with_capacity(3);
    let mut fmt = Vec::with_capacity(3);
    for t in toks {
        tokens.push(tok(t.text, t.ws_len, t.kind));
        fmt.push(fd(t.c.ignored, t.c.nl, t.c.ind, t.c.cont, t.c.sp));
    }
    run_reconstruct(recon_settings(s.crlf, s.hard, s.iw, s.cw), tokens, fmt).as_bytes()
}

/// Reference layout (positions only).
pub fn layout3(toks: &[RTok; 3], s: &Settings, out: &'static [u8]) -> Layout {
    // `out` may be empty when only the positions are needed
    let mut ws_start = [0usize; 3];
    let mut start = [0usize; 3];
    let mut inserted = [0usize; 3];
    let mut pos = 0usize;
    let mut must_break = false;
    let mut k = 0;
    while k < 3 {
        let (ins, ws) = ref_ws_len(&toks[k], s, must_break);
        ws_start[k] = pos;
        inserted[k] = ins;
        pos += ins + ws;
        start[k] = pos;
        pos += toks[k].text.len() - toks[k].ws_len as usize;
        must_break = is_singleline_comment(toks[k].kind);
        k += 1;
    }
    Layout { out, ws_start, start, inserted, len: pos }
}

/// Runs the real reconstructor on three tokens and asserts R0 (length + pointwise equality with
/// the reference rendering at a symbolic index).
pub fn run3(toks: [RTok; 3], s: Settings) -> Layout {
    let out = run3_raw(&toks, s);
    let l = layout3(&toks, &s, out);
    let (ws_start, start, inserted) = (l.ws_start, l.start, l.inserted);
    assert!(out.len() == l.len, "R0: output length");

    // R0 pointwise: one symbolic index covers every position
    let i: usize = kani::any();
    kani::assume(i < out.len());
    let nl_len = if s.crlf { 2 } else { 1 };
    let unit = if s.hard { b'\t' } else { b' ' };
    let mut k = 0;
    while k < 3 {
        let t = &toks[k];
        let content = &t.text.as_bytes()[t.ws_len as usize..];
        if i >= start[k] && i < start[k] + content.len() {
            assert!(out[i] == content[i - start[k]], "R0: content byte");
        } else if i >= ws_start[k] && i < start[k] {
            let o = i - ws_start[k];
            let nl_byte = |o: usize| if s.crlf && o % 2 == 0 { b'\r' } else { b'\n' };
            if o < inserted[k] {
                assert!(out[i] == nl_byte(o), "R0: safety-net newline");
            } else if t.c.ignored {
                assert!(out[i] == t.text.as_bytes()[o - inserted[k]], "R0: ignored whitespace verbatim");
            } else {
                let o = o - inserted[k];
                let nls = t.c.nl as usize * nl_len;
                let inds = nls + t.c.ind as usize * s.iw as usize;
                let conts = inds + t.c.cont as usize * s.cw as usize;
                if o < nls {
                    assert!(out[i] == nl_byte(o), "R0: newline");
                } else if o < conts {
                    assert!(out[i] == unit, "R0: indentation unit");
                } else {
                    assert!(out[i] == b' ', "R0: space");
                }
            }
        }
        k += 1;
    }
    l
}

pub const KINDS_FOR_RECON: [TokenType; 5] = [
    TokenType::Identifier,
    TokenType::Comment(CommentKind::InlineLine),
    TokenType::Comment(CommentKind::IndividualLine),
    TokenType::Comment(CommentKind::InlineBlock),
    TokenType::TextLiteral(TextLiteralKind::Unterminated),
];

#[macro_export]
macro_rules! recon_harness {
    ($(#[$m: meta])* fn $name: ident () unwind($u: expr) $body: block) => {
        $crate::harness! {
            $(#[$m])*
            fn $name() unwind($u) stubs(std::string::String::push_str => crate::common::stub_push_str, std::string::String::push => crate::common::stub_push, log::max_level => crate::common::stub_log_max_level_off) $body
        }
    };
}

/// A token text with symbolic leading whitespace of exactly `n` bytes drawn from `table`,
/// followed by the fixed content.
pub fn text_with_ws(n: usize, table: &[u8], content: &[u8]) -> &'static str {
    let mut v = Vec::with_capacity(n + content.len());
    let mut k = 0;
    while k < n {
        v.push(pick(table));
        k += 1;
    }
    let mut k = 0;
    while k < content.len() {
        v.push(content[k]);
        k += 1;
    }
    leak_str(v)
}

/// Like `recon_harness!`, plus naive models of core's internal byte searches (`str::split`,
/// `rfind`, `contains` go through a word-at-a-time routine that is very expensive to bit-blast).
#[macro_export]
macro_rules! cursor_harness {
    ($(#[$m: meta])* fn $name: ident () unwind($u: expr) $body: block) => {
        $crate::harness! {
            $(#[$m])*
            fn $name() unwind($u) stubs(std::string::String::push_str => crate::common::stub_push_str, std::string::String::push => crate::common::stub_push, log::max_level => crate::common::stub_log_max_level_off, core::slice::memchr::memchr => crate::common::stub_memchr_16, core::slice::memchr::memrchr => crate::common::stub_memrchr_16) $body
        }
    };
}
