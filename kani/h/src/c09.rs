//! C09 -- the configured line ending is used everywhere and input endings do not matter.
use crate::common::*;
use crate::rmodel::*;
use crate::{cover, harness, recon_harness};
use pasfmt_core::lang::*;

/// Q1: two runs of the real reconstructor on the same symbolic state (no ignored tokens), lf vs
/// crlf: the crlf output is the lf output with each LF replaced by CRLF, decided pointwise:
/// position i of the lf output maps to i + (number of LFs before i), where that number comes
/// from the reference layout. Also: the lf output contains no CR at all.
fn q1_body(hard: bool, iw: u8, cw: u8) {
    let a_kind = pick(&KINDS_FOR_RECON);
    let zero = Counters { ignored: false, nl: 0, ind: 0, cont: 0, sp: 0 };
    let mk = |b: Counters, e: Counters| {
        [
            RTok { text: "ab", ws_len: 0, kind: a_kind, c: zero },
            RTok { text: "Cd", ws_len: 0, kind: TokenType::Identifier, c: b },
            RTok { text: "", ws_len: 0, kind: TokenType::Eof, c: e },
        ]
    };
    let b = any_counters(2, 1);
    let e = Counters { ignored: false, nl: any_upto(2), ind: 0, cont: 0, sp: any_upto(1) };
    let s_lf = Settings { crlf: false, hard, iw, cw };
    let s_crlf = Settings { crlf: true, hard, iw, cw };
    let t_lf = mk(b, e);
    let t_crlf = mk(b, e);
    let lf = run3_raw(&t_lf, s_lf);
    let crlf = run3_raw(&t_crlf, s_crlf);
    let l = layout3(&t_lf, &s_lf, lf);
    assert!(lf.len() == l.len);
    // newlines before token k in the lf rendering (safety net included)
    let n1 = l.start[1] - l.ws_start[1] - (b.ind as usize * iw as usize + b.cont as usize * cw as usize + b.sp as usize);
    let n2 = l.start[2] - l.ws_start[2] - e.sp as usize;
    assert!(crlf.len() == lf.len() + n1 + n2, "crlf output = lf output + one CR per line break");
    let i: usize = kani::any();
    kani::assume(i < lf.len());
    assert!(lf[i] != b'\r', "lf output contains a CR");
    // LFs strictly before position i
    let before = if i < l.ws_start[1] { 0 } else if i < l.ws_start[1] + n1 { i - l.ws_start[1] } else if i < l.ws_start[2] { n1 } else if i < l.ws_start[2] + n2 { n1 + i - l.ws_start[2] } else { n1 + n2 };
    let j = i + before;
    if lf[i] == b'\n' {
        assert!(crlf[j] == b'\r' && crlf[j + 1] == b'\n', "LF not rendered as CRLF");
    } else {
        assert!(crlf[j] == lf[i], "non-newline byte differs between lf and crlf outputs");
    }
    cover!(n1 == 2 && n2 == 1, "two_breaks_then_one");
    cover!(is_singleline_comment(a_kind) && b.nl == 0, "safety_net");
}
macro_rules! q1 { ($($name: ident => ($h: expr, $iw: expr, $cw: expr)),*) => {$(
    recon_harness! { fn $name() unwind(8) { q1_body($h, $iw, $cw) } }
)*}}
q1! {
    c09_q1_lf_vs_crlf_soft_w2_w4 => (false, 2, 4),
    c09_q1_lf_vs_crlf_hard_w1_w1 => (true, 1, 1)
}

/// Q3: the real `FormattingData::from`: the counters computed from original whitespace do not
/// depend on whether its line breaks are CRLF or LF. Exact-length instances: `shape` lists the
/// slots, `b` = symbolic blank (space or tab), `n` = line break (LF in one run, CRLF in the other).
fn q3_body(shape: &'static [u8]) {
    let mut lf = Vec::with_capacity(8);
    let mut crlf = Vec::with_capacity(12);
    let mut nls = 0u16;
    let mut tail = 0u16;
    let mut k = 0;
    while k < shape.len() {
        if shape[k] == b'n' {
            lf.push(b'\n');
            crlf.push(b'\r');
            crlf.push(b'\n');
            nls += 1;
            tail = 0;
        } else {
            let b = pick(&[b' ', b'\t']);
            lf.push(b);
            crlf.push(b);
            tail += 1;
        }
        k += 1;
    }
    let a = FormattingData::from(leak_str(lf));
    let b = FormattingData::from(leak_str(crlf));
    assert!(a.newlines_before == b.newlines_before && a.spaces_before == b.spaces_before);
    assert!(a.newlines_before == nls && a.spaces_before == tail);
    assert!(a.indentations_before == 0 && a.continuations_before == 0 && !a.is_ignored());
    assert!(b.indentations_before == 0 && b.continuations_before == 0 && !b.is_ignored());
    cover!(a.newlines_before == nls, "reached_end");
    std::mem::forget(a);
    std::mem::forget(b);
}
macro_rules! q3 { ($($name: ident => ($sh: expr)),*) => {$(
    harness! { fn $name() unwind(12) stubs(core::slice::memchr::memchr => crate::common::stub_memchr, core::slice::memchr::memrchr => crate::common::stub_memrchr) { q3_body($sh) } }
)*}}
q3! {
    c09_q3_counters_crlf_eq_lf_bnbb => (b"bnbb"),
    c09_q3_counters_crlf_eq_lf_nnb => (b"nnb"),
    c09_q3_counters_crlf_eq_lf_bn => (b"bn"),
    c09_q3_counters_crlf_eq_lf_bb => (b"bb")
}
