//! Shared driver for the `TokenSpacing` harnesses.
use crate::common::*;
use pasfmt_core::lang::*;
use pasfmt_core::prelude::TokenSpacing;
use pasfmt_core::traits::LogicalLineFileFormatter;

/// Runs the real `TokenSpacing::format` on `N` tokens of the given kinds with the given original
/// counters; returns the resulting spaces_before per token (other counters must be untouched:
/// asserted here).
pub fn run_spacing<const N: usize>(kinds: &[TokenType; N], orig: &[(u16, u16, u16, u16); N]) -> [u16; N] {
    let mut tokens = Vec::with_capacity(N);
    let mut fmt = Vec::with_capacity(N);
    // the `ignored` flag of every token is symbolic: the rule must hand it back unchanged (K-IGN)
    let mut ign = [false; N];
    let mut k = 0;
    while k < N {
        ign[k] = kani::any();
        tokens.push(tok("ab", 0, kinds[k]));
        fmt.push(fd(ign[k], orig[k].0, orig[k].1, orig[k].2, orig[k].3));
        k += 1;
    }
    let mut ft = FormattedTokens::verif_new(leak_tokens(tokens), fmt);
    TokenSpacing {}.format(&mut ft, &[]);
    let mut out = [0u16; N];
    let mut k = 0;
    while k < N {
        let d = ft.get_formatting_data(k).unwrap();
        assert!(d.newlines_before == orig[k].0 && d.indentations_before == orig[k].1 && d.continuations_before == orig[k].2, "spacing rule touched a non-space counter");
        assert!(d.is_ignored() == ign[k], "spacing rule changed the ignored flag of a token");
        out[k] = d.spaces_before;
        k += 1;
    }
    std::mem::forget(ft);
    out
}

pub fn any_orig<const N: usize>() -> [(u16, u16, u16, u16); N] {
    let mut o = [(0u16, 0u16, 0u16, 0u16); N];
    let mut k = 0;
    while k < N {
        o[k] = (kani::any(), kani::any(), kani::any(), kani::any());
        k += 1;
    }
    o
}

pub fn is_neutral(k: TokenType) -> bool {
    matches!(k, TokenType::TextLiteral(_) | TokenType::NumberLiteral(_) | TokenType::Unknown | TokenType::Eof)
}

pub fn is_word(k: TokenType) -> bool {
    matches!(k, TokenType::Identifier | TokenType::Keyword(_))
}
