//! Harness crate: every `#[kani::proof]` here drives the *real* pasfmt code (path dependencies on
//! /repo) on symbolic inputs. The same bodies are compiled natively (`--cfg replay` is not needed:
//! without `cfg(kani)` the `kani` shim in `shim.rs` feeds `any()` from a recorded byte vector) so
//! that a counterexample can be replayed against the real build.
#![allow(clippy::all)]
#![allow(dead_code)]

pub mod shim;
pub mod common;
pub mod gen_tables;
#[cfg(not(kani))]
pub mod registry;

#[cfg(feature = "c10")]
pub mod c10;
