//! Harness crate: every `#[kani::proof]` here drives the *real* pasfmt code (path dependencies on
//! /repo) on symbolic inputs. The same bodies are compiled natively (`--cfg replay` is not needed:
//! without `cfg(kani)` the `kani` shim in `shim.rs` feeds `any()` from a recorded byte vector) so
//! that a counterexample can be replayed against the real build.
#![cfg_attr(kani, feature(allocator_api))]
#![allow(clippy::all)]
#![allow(dead_code)]
#![allow(unused)]

pub mod shim;
pub mod common;
pub mod gen_tables;
pub mod rmodel;
pub mod c01_tables;
pub mod spacing;
pub mod reflex;
#[cfg(not(kani))]
pub mod registry;

#[cfg(feature = "c10")]
pub mod c10;
#[cfg(feature = "c01")]
pub mod c01;
#[cfg(feature = "c02")]
pub mod c02;
#[cfg(feature = "c03")]
pub mod c03;
#[cfg(feature = "c04")]
pub mod c04;
#[cfg(feature = "c06")]
pub mod c06;
#[cfg(feature = "c07")]
pub mod c07;
#[cfg(feature = "c08")]
pub mod c08;
#[cfg(feature = "c09")]
pub mod c09;
#[cfg(feature = "c12")]
pub mod c12;
#[cfg(feature = "c13")]
pub mod c13;
#[cfg(feature = "c14")]
pub mod c14;
#[cfg(any(feature = "c15", feature = "c04"))]
pub mod c15;
#[cfg(feature = "c17")]
pub mod c17;
#[cfg(feature = "probe")]
pub mod probe;
