//! C06 -- layout independence (component non-interference, 2-run self-composition).
use crate::common::*;
use crate::spacing::*;
use crate::{cover, harness};
use pasfmt_core::lang::*;

/// The only places where `TokenSpacing` lets the original amount of space through: a gap that
/// follows a neutral token (text or number literal, unknown) -- whose rule is
/// `min(original, 1)` -- when the next token has no opinion on the space before itself (another
/// neutral token, an identifier, an opening bracket, a type caret), and the gap after an inline
/// line comment (always broken off later, K-BRK + C08/S2). None of these adjacencies occurs in
/// well-formed code except `<string literal>[index]`; there "some space vs none" is kept.
fn leaky_gap(prev: TokenType, cur: TokenType) -> bool {
    let no_opinion = is_neutral(cur)
        || matches!(
            cur,
            TokenType::Identifier
                | TokenType::Op(OperatorKind::LBrack | OperatorKind::LParen | OperatorKind::Caret(CaretKind::Type))
        );
    // the end-of-file token keeps min(original, 1) as well; it is overwritten by EofNewline (K-EOF)
    (is_neutral(prev) && no_opinion) || prev == TokenType::Comment(CommentKind::InlineLine) || cur == TokenType::Eof
}

fn n2_body<const N: usize>() {
    let mut kinds = [TokenType::Identifier; N];
    let mut k = 0;
    while k < N {
        kinds[k] = any_token_type();
        // K-LEX: the end-of-file token is last
        kani::assume(k == N - 1 || kinds[k] != TokenType::Eof);
        k += 1;
    }
    let o1 = any_orig::<N>();
    let mut o2 = any_orig::<N>();
    // same line breaks / indentation, different amounts of horizontal space
    let mut k = 0;
    while k < N {
        o2[k].0 = o1[k].0;
        o2[k].1 = o1[k].1;
        o2[k].2 = o1[k].2;
        if k > 0 && kinds[k - 1] == TokenType::Comment(CommentKind::InlineLine) {
            // the gap after an inline line comment is passed through as is (then broken off)
            kani::assume(o1[k].3 == o2[k].3);
        } else if k > 0 && leaky_gap(kinds[k - 1], kinds[k]) {
            // in a leaky gap only "some space vs none" may matter
            kani::assume((o1[k].3 == 0) == (o2[k].3 == 0));
        }
        k += 1;
    }
    let r1 = run_spacing(&kinds, &o1);
    let r2 = run_spacing(&kinds, &o2);
    #[cfg(not(kani))]
    println!("NOTE detail={:?}", format!("kinds={:?} o1={:?} o2={:?} r1={:?} r2={:?}", kinds, o1, o2, r1, r2));
    let mut k = 0;
    while k < N {
        assert!(r1[k] == r2[k], "spacing depends on the original horizontal whitespace");
        k += 1;
    }
    cover!(o1[1].3 != o2[1].3 && r1[1] == 1, "different_originals_same_result");
}
harness! { fn c06_n2_spacing_noninterference_3kinds() unwind(6) { n2_body::<3>() } }
harness! { fn c06_n2_spacing_noninterference_4kinds() unwind(7) { n2_body::<4>() } }

/// N3: the real `reconstruct_solution` (through `apply_solution`): the resulting counters of a
/// logical line do not depend on the original counters, except that a break before the first
/// token keeps "blank line before it or not".
harness! {
    fn c06_n3_solution_overwrites_layout() unwind(5) {
        use pasfmt_core::prelude::OptimisingLineFormatterSettings;
        use pasfmt_core::rules::optimising_line_formatter::verif_hooks_olf as olf_hooks;
        let settings = OptimisingLineFormatterSettings { max_line_length: 120, iteration_max: 10, break_before_begin: false, format_multiline_strings: true };
        let rs = recon_settings(false, false, 2, 4);
        let kinds = [any_token_type(), any_token_type(), any_token_type()];
        let o1 = any_orig::<3>();
        let o2 = any_orig::<3>();
        // blank-line grouping before the line is the one layout fact that is kept
        kani::assume((o1[0].0 >= 2) == (o2[0].0 >= 2));
        let start: (u16, u16) = (any_upto(100), any_upto(100));
        let d: [Option<u16>; 3] = [if kani::any() { Some(0) } else { None }, if kani::any() { Some(any_upto(100)) } else { None }, if kani::any() { Some(any_upto(100)) } else { None }];
        let run = |o: &[(u16, u16, u16, u16); 3]| {
            let tokens = vec![tok("ab", 0, kinds[0]), tok("cd", 0, kinds[1]), tok("ef", 0, kinds[2])];
            let fmt = vec![fd(false, o[0].0, o[0].1, o[0].2, 1), fd(false, o[1].0, o[1].1, o[1].2, 1), fd(false, o[2].0, o[2].1, o[2].2, 0)];
            let mut ft = FormattedTokens::verif_new(leak_tokens(tokens), fmt);
            let line = LogicalLine::new(None, 0, vec![0, 1, 2], LogicalLineType::Unknown);
            olf_hooks::apply_solution(&settings, &rs, &mut ft, &line, start, &d);
            let mut r = [(0u16, 0u16, 0u16, 0u16); 3];
            let mut k = 0;
            while k < 3 {
                let f = ft.get_formatting_data(k).unwrap();
                r[k] = (f.newlines_before, f.indentations_before, f.continuations_before, f.spaces_before);
                k += 1;
            }
            std::mem::forget(ft);
            std::mem::forget(line);
            r
        };
        let r1 = run(&o1);
        let r2 = run(&o2);
        let mut k = 0;
        while k < 3 {
            assert!(r1[k] == r2[k], "wrapping result depends on the original layout");
            k += 1;
        }
        cover!(o1[1].0 != o2[1].0 && o1[1].1 != o2[1].1, "different_layouts");
    }
}

/// N5: the tail of the real `OptimisingLineFormatter::format` reads nothing but the counters:
/// same counters, different token kinds/contents => same result (driven with no logical lines,
/// which skips the search).
harness! {
    fn c06_n5_olf_tail_reads_counters_only() unwind(5) {
        use pasfmt_core::prelude::{OptimisingLineFormatter, OptimisingLineFormatterSettings};
        use pasfmt_core::traits::LogicalLineFileFormatter;
        let o = any_orig::<2>();
        let run = |k0: TokenType, k1: TokenType, t0: &'static str| {
            let settings = OptimisingLineFormatterSettings { max_line_length: kani::any(), iteration_max: 10, break_before_begin: kani::any(), format_multiline_strings: false };
            let olf = OptimisingLineFormatter::new(settings, recon_settings(false, false, 2, 4));
            let tokens = vec![tok(t0, 0, k0), tok("cd", 0, k1)];
            let fmt = vec![fd(false, o[0].0, o[0].1, o[0].2, o[0].3), fd(false, o[1].0, o[1].1, o[1].2, o[1].3)];
            let mut ft = FormattedTokens::verif_new(leak_tokens(tokens), fmt);
            olf.format(&mut ft, &[]);
            let f0 = ft.get_formatting_data(0).unwrap();
            let f1 = ft.get_formatting_data(1).unwrap();
            let r = ((f0.newlines_before, f0.indentations_before, f0.continuations_before, f0.spaces_before), (f1.newlines_before, f1.indentations_before, f1.continuations_before, f1.spaces_before));
            std::mem::forget(ft);
            std::mem::forget(olf);
            r
        };
        let r1 = run(any_token_type(), any_token_type(), "ab");
        let r2 = run(any_token_type(), any_token_type(), "abcdef");
        assert!(r1 == r2);
        cover!(o[1].0 > 0 && o[1].3 > 0, "space_zeroed");
    }
}
