//! C14 -- logical lines cover every token (pass machinery only; the parser body is out of reach).
use crate::common::*;
use crate::{cover, harness};
use pasfmt_core::defaults::parser::verif_hooks_parser as ph;
use pasfmt_core::lang::*;

use ConditionalDirectiveKind as CDK;

const ROLES: [RawTokenType; 5] = [
    RawTokenType::Identifier,
    RawTokenType::ConditionalDirective(CDK::Ifdef),
    RawTokenType::ConditionalDirective(CDK::Else),
    RawTokenType::ConditionalDirective(CDK::Endif),
    RawTokenType::CompilerDirective,
];

/// G1: the real `DirectiveTree::parse(..).passes()` on `n` tokens, each symbolic among
/// {code, if-like, else-like, end-like, compiler directive} + EOF: every non-conditional token
/// is in at least one pass; each pass is strictly increasing and holds no conditional directive;
/// without conditional directives there is exactly one pass holding everything; the number of
/// passes is at most (number of else-like directives + 1) -- linear, not exponential.
fn g1_body(n: usize) {
    let mut kinds = [RawTokenType::Eof; 8];
    let mut toks = Vec::with_capacity(n + 1);
    let mut n_cond = 0;
    let mut n_else = 0;
    let mut k = 0;
    while k < n {
        let r: usize = kani::any();
        kani::assume(r < 5);
        kinds[k] = ROLES[r];
        if r >= 1 && r <= 3 {
            n_cond += 1;
        }
        if r == 2 {
            n_else += 1;
        }
        toks.push(RawToken::new("x", 0, kinds[k]));
        k += 1;
    }
    toks.push(RawToken::new("", 0, RawTokenType::Eof));
    let passes = ph::directive_passes(&toks);
    assert!(passes.len() >= 1);
    assert!(passes.len() <= n_else + 1, "more passes than branches");
    let mut seen = [false; 8];
    let mut p = 0;
    while p < passes.len() {
        let pass = &passes[p];
        let mut prev = usize::MAX;
        let mut j = 0;
        while j < pass.len() {
            let idx = pass[j];
            assert!(idx <= n, "pass holds an invalid token index");
            assert!(prev == usize::MAX || idx > prev, "pass is not strictly increasing");
            assert!(!matches!(kinds[idx], RawTokenType::ConditionalDirective(_)), "pass holds a conditional directive");
            seen[idx] = true;
            prev = idx;
            j += 1;
        }
        p += 1;
    }
    let mut k = 0;
    while k <= n {
        if !matches!(kinds[k], RawTokenType::ConditionalDirective(_)) {
            assert!(seen[k], "a token is in no pass: it would be skipped by line-based formatting");
        }
        k += 1;
    }
    if n_cond == 0 {
        assert!(passes.len() == 1 && passes[0].len() == n + 1);
    }
    cover!(passes.len() == 2, "two_passes");
    std::mem::forget(passes);
    std::mem::forget(toks);
}
harness! { fn c14_g1_passes_cover_3tokens() unwind(5) { g1_body(3) } }
harness! { fn c14_g1_passes_cover_4tokens() unwind(7) { g1_body(4) } }
harness! { fn c14_g1_passes_cover_5tokens() unwind(8) { g1_body(5) } }
harness! { fn c14_g1_passes_cover_2tokens() unwind(4) { g1_body(2) } }

// ---------------------------------------------------------------------------------------------
use crate::note;
use KeywordKind as KK;
use OperatorKind as OK;

/// Token kinds for the parser probes: the structural keywords and operators the recursive
/// descent dispatches on.
const PARSE_KINDS: [RawTokenType; 14] = [
    RawTokenType::Identifier,
    RawTokenType::Keyword(KK::If),
    RawTokenType::Keyword(KK::While),
    RawTokenType::Keyword(KK::Begin),
    RawTokenType::Keyword(KK::End),
    RawTokenType::Keyword(KK::Procedure),
    RawTokenType::Keyword(KK::Then),
    RawTokenType::Op(OK::Colon),
    RawTokenType::Op(OK::Caret(CaretKind::Deref)),
    RawTokenType::Op(OK::Semicolon),
    RawTokenType::Op(OK::LParen),
    RawTokenType::Op(OK::Equal(EqKind::Comp)),
    RawTokenType::IdentifierOrKeyword(KK::Platform),
    RawTokenType::Comment(CommentKind::InlineBlock),
];

/// G4: ONE pass of the real recursive-descent parser on `n` symbolic-kind tokens + EOF (no
/// conditional directives): it returns (no panic, loops bounded), every line lists valid,
/// strictly increasing token positions, every token is in exactly one line, the last line is the
/// end-of-file line holding only the end-of-file token.
fn g4_body<const N: usize>(table: &[RawTokenType]) {
    let mut toks: [RawToken<'static>; N] = core::array::from_fn(|_| RawToken::new("x", 0, RawTokenType::Eof));
    let mut pass = [0usize; N];
    let mut k = 0;
    while k < N {
        pass[k] = k;
        if k + 1 < N {
            let i: usize = kani::any();
            kani::assume(i < table.len());
            note!("kind_index", i);
            toks[k] = RawToken::new("x", 0, table[i]);
        } else {
            toks[k] = RawToken::new("", 0, RawTokenType::Eof);
        }
        k += 1;
    }
    let lines = ph::parse_pass(&mut toks, &pass);
    let mut seen = [0u8; N];
    let mut l = 0;
    while l < lines.len() {
        let t = &lines[l].2;
        let mut prev = usize::MAX;
        let mut j = 0;
        while j < t.len() {
            assert!(t[j] < N, "line holds an invalid token position");
            assert!(prev == usize::MAX || t[j] > prev, "line is not strictly increasing");
            seen[t[j]] += 1;
            prev = t[j];
            j += 1;
        }
        l += 1;
    }
    let mut k = 0;
    while k < N {
        assert!(seen[k] == 1, "without conditional directives every token is in exactly one line");
        k += 1;
    }
    let last = &lines[lines.len() - 1];
    assert!(last.3 == LogicalLineType::Eof && last.2.len() == 1 && last.2[0] == N - 1, "exactly one end-of-file line, last, holding only the end-of-file token");
    cover!(lines.len() >= 2, "at_least_two_lines");
    std::mem::forget(lines);
}
harness! { fn c14_g4_parser_pass_1token() unwind(5) stubs(log::max_level => crate::common::stub_log_max_level_off, std::collections::HashSet::insert => crate::common::stub_hashset_insert) { g4_body::<2>(&PARSE_KINDS) } }
harness! { fn c14_g4_parser_pass_2tokens() unwind(5) stubs(log::max_level => crate::common::stub_log_max_level_off, std::collections::HashSet::insert => crate::common::stub_hashset_insert) { g4_body::<3>(&PARSE_KINDS) } }
