//! C14 -- logical lines cover every token (pass machinery only; the parser body is out of reach).
use crate::common::*;
use crate::{cover, harness};
use pasfmt_core::defaults::parser::verif_hooks_parser as ph;
use pasfmt_core::lang::*;

use ConditionalDirectiveKind as CDK;

const ROLES: [RawTokenType; 5] = [
    RawTokenType::Identifier,
    RawTokenType::ConditionalDirective(CDK::Ifdef),
    RawTokenType::ConditionalDirective(CDK::Else),
    RawTokenType::ConditionalDirective(CDK::Endif),
    RawTokenType::CompilerDirective,
];

/// G1: the real `DirectiveTree::parse(..).passes()` on `n` tokens, each symbolic among
/// {code, if-like, else-like, end-like, compiler directive} + EOF: every non-conditional token
/// is in at least one pass; each pass is strictly increasing and holds no conditional directive;
/// without conditional directives there is exactly one pass holding everything; the number of
/// passes is at most (number of else-like directives + 1) -- linear, not exponential.
fn g1_body(n: usize) {
    let mut kinds = [RawTokenType::Eof; 8];
    let mut toks = Vec::with_capacity(n + 1);
    let mut n_cond = 0;
    let mut n_else = 0;
    let mut k = 0;
    while k < n {
        let r: usize = kani::any();
        kani::assume(r < 5);
        kinds[k] = ROLES[r];
        if r >= 1 && r <= 3 {
            n_cond += 1;
        }
        if r == 2 {
            n_else += 1;
        }
        toks.push(RawToken::new("x", 0, kinds[k]));
        k += 1;
    }
    toks.push(RawToken::new("", 0, RawTokenType::Eof));
    let passes = ph::directive_passes(&toks);
    assert!(passes.len() >= 1);
    assert!(passes.len() <= n_else + 1, "more passes than branches");
    let mut seen = [false; 8];
    let mut p = 0;
    while p < passes.len() {
        let pass = &passes[p];
        let mut prev = usize::MAX;
        let mut j = 0;
        while j < pass.len() {
            let idx = pass[j];
            assert!(idx <= n, "pass holds an invalid token index");
            assert!(prev == usize::MAX || idx > prev, "pass is not strictly increasing");
            assert!(!matches!(kinds[idx], RawTokenType::ConditionalDirective(_)), "pass holds a conditional directive");
            seen[idx] = true;
            prev = idx;
            j += 1;
        }
        p += 1;
    }
    let mut k = 0;
    while k <= n {
        if !matches!(kinds[k], RawTokenType::ConditionalDirective(_)) {
            assert!(seen[k], "a token is in no pass: it would be skipped by line-based formatting");
        }
        k += 1;
    }
    if n_cond == 0 {
        assert!(passes.len() == 1 && passes[0].len() == n + 1);
    }
    cover!(passes.len() == 2, "two_passes");
    std::mem::forget(passes);
    std::mem::forget(toks);
}
harness! { fn c14_g1_passes_cover_3tokens() unwind(10) { g1_body(3) } }
harness! { fn c14_g1_passes_cover_4tokens() unwind(12) { g1_body(4) } }
harness! { fn c14_g1_passes_cover_5tokens() unwind(14) { g1_body(5) } }
