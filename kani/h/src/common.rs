//! Shared helpers: the `kani` facade, tiny reference models, cheap state construction.

#[cfg(kani)]
pub use ::kani;
#[cfg(not(kani))]
pub use crate::shim as kani;

/// `cover!(cond, "name")`: reachability witness (must be SATISFIED in the solver run).
#[macro_export]
macro_rules! cover {
    ($cond: expr, $msg: literal) => {{
        #[cfg(kani)]
        ::kani::cover!($cond, $msg);
        #[cfg(not(kani))]
        $crate::shim_cover!($cond, $msg);
    }};
}

/// Declares a harness: a Kani proof under `cargo kani`, a plain function under `cargo build`
/// (replayed through `bin/replay`). `unwind` is mandatory: the bound is part of the claim and
/// Kani's unwinding assertions stay on.
#[macro_export]
macro_rules! harness {
    ($(#[$m: meta])* fn $name: ident () unwind($u: expr) $body: block) => {
        $(#[$m])*
        #[cfg_attr(kani, kani::proof)]
        #[cfg_attr(kani, kani::unwind($u))]
        pub fn $name() $body
    };
    ($(#[$m: meta])* fn $name: ident () unwind($u: expr) stubs($($from: path => $to: path),*) $body: block) => {
        $(#[$m])*
        #[cfg_attr(kani, kani::proof)]
        #[cfg_attr(kani, kani::unwind($u))]
        $(#[cfg_attr(kani, kani::stub($from, $to))])*
        pub fn $name() $body
    };
}

/// Symbolic value in `0..=max`.
pub fn any_upto(max: u16) -> u16 {
    let v: u16 = kani::any();
    kani::assume(v <= max);
    v
}

pub fn any_usize_upto(max: usize) -> usize {
    let v: usize = kani::any();
    kani::assume(v <= max);
    v
}

/// Picks a symbolic element of a table.
pub fn pick<T: Copy>(table: &[T]) -> T {
    let i: usize = kani::any();
    kani::assume(i < table.len());
    table[i]
}

/// blank = code points up to U+0020 and U+3000 (the definition given in the properties).
pub fn is_blank(c: char) -> bool {
    c <= '\u{20}' || c == '\u{3000}'
}

// ---------------------------------------------------------------------------------------------
// Cheap state construction (everything that owns heap memory is leaked: no drop glue for CBMC).

use pasfmt_core::defaults::reconstructor::DelphiLogicalLinesReconstructor;
use pasfmt_core::lang::*;
use pasfmt_core::traits::LogicalLinesReconstructor;

pub fn leak_str(bytes: Vec<u8>) -> &'static str {
    let b: &'static [u8] = Box::leak(bytes.into_boxed_slice());
    // SAFETY: every caller builds `bytes` from whole UTF-8 sequences (checked natively in replay).
    #[cfg(not(kani))]
    {
        std::str::from_utf8(b).expect("harness built invalid UTF-8")
    }
    #[cfg(kani)]
    unsafe {
        std::str::from_utf8_unchecked(b)
    }
}

pub fn leak_tokens(v: Vec<Token<'static>>) -> &'static mut [Token<'static>] {
    Box::leak(v.into_boxed_slice())
}

pub fn tok(content: &'static str, ws_len: u32, kind: TokenType) -> Token<'static> {
    Token::new_ref(content, ws_len, kind)
}

pub fn fd(ignored: bool, nl: u16, ind: u16, cont: u16, sp: u16) -> FormattingData {
    FormattingData::verif_new(ignored, nl, ind, cont, sp)
}

pub fn recon_settings(crlf: bool, hard_tabs: bool, iw: u8, cw: u8) -> ReconstructionSettings {
    ReconstructionSettings::new(
        if crlf { LineEnding::Crlf } else { LineEnding::Lf },
        if hard_tabs { TabKind::Hard } else { TabKind::Soft },
        iw,
        cw.into(),
    )
}

/// Capacity of the pre-allocated output buffer (concrete: no reallocation inside the solver).
pub const OUT_CAP: usize = 96;

/// Runs the real `reconstruct` and returns the (leaked) output.
pub fn run_reconstruct(
    settings: ReconstructionSettings,
    tokens: Vec<Token<'static>>,
    fmt: Vec<FormattingData>,
) -> &'static str {
    let r: &'static DelphiLogicalLinesReconstructor =
        Box::leak(Box::new(DelphiLogicalLinesReconstructor::new(settings)));
    let ft = FormattedTokens::verif_new(leak_tokens(tokens), fmt);
    // concrete capacity: no reallocation with a symbolic size inside the solver
    let out: &'static mut String = Box::leak(Box::new(String::with_capacity(OUT_CAP)));
    r.reconstruct(ft, out);
    out.as_str()
}

pub fn any_token_type() -> TokenType {
    pick(&crate::gen_tables::ALL_TOKEN_TYPES)
}

pub fn any_raw_token_type() -> RawTokenType {
    pick(&crate::gen_tables::ALL_RAW_TOKEN_TYPES)
}

/// Generates one harness per listed instance of a body function taking concrete parameters.
#[macro_export]
macro_rules! instances {
    ($body: ident, unwind($u: expr); $($(#[$m: meta])* $name: ident => ($($arg: expr),*)),* $(,)?) => {
        $(
            $crate::harness! {
                $(#[$m])*
                fn $name() unwind($u) { $body($($arg),*) }
            }
        )*
    };
}

/// `note!("key", value)`: names a role of the counterexample (printed by the native replay, used
/// to match known findings by role rather than by solver-chosen filler). No-op under Kani.
#[macro_export]
macro_rules! note {
    ($k: literal, $v: expr) => {{
        #[cfg(not(kani))]
        println!("NOTE {}={:?}", $k, $v);
        #[cfg(kani)]
        let _ = &$v;
    }};
}

// ---------------------------------------------------------------------------------------------
// Stubs (each is part of the claim of every obligation that uses it; listed in the evidence).

/// Model of `String::push_str` for buffers with pre-allocated capacity: appends in place and
/// *asserts* that no growth is needed, so the reallocation path (a symbolic-size allocation the
/// solver cannot digest) is cut without hiding anything: if growth were reachable the assertion
/// fails.
pub fn stub_push_str(s: &mut String, t: &str) {
    unsafe {
        let v = s.as_mut_vec();
        let len = v.len();
        assert!(v.capacity() - len >= t.len(), "stub_push_str: pre-allocated capacity exceeded");
        // byte-wise on purpose: a memcpy to a symbolic offset is far more expensive for CBMC than
        // single array writes
        let dst = v.as_mut_ptr();
        let src = t.as_bytes();
        let mut k = 0;
        while k < src.len() {
            *dst.add(len + k) = src[k];
            k += 1;
        }
        v.set_len(len + t.len());
    }
}

/// Model of `String::push` for ASCII characters (all that pasfmt ever pushes with it).
pub fn stub_push(s: &mut String, c: char) {
    assert!((c as u32) < 0x80, "stub_push: non-ASCII char");
    unsafe {
        let v = s.as_mut_vec();
        let len = v.len();
        assert!(v.capacity() - len >= 1, "stub_push: pre-allocated capacity exceeded");
        *v.as_mut_ptr().add(len) = c as u8;
        v.set_len(len + 1);
    }
}

/// Model of `str::repeat` for harnesses that only look at the *length* of the result: a String
/// of length `s.len() * n` whose bytes are never read (no allocation of a symbolic size, which
/// CBMC cannot digest). The real `repeat` is exercised byte by byte at concrete widths in C10/A2.
pub fn stub_str_repeat_len_only(s: &str, n: usize) -> String {
    static BACKING: [u8; 66000] = [b' '; 66000];
    let len = s.len().checked_mul(n).expect("capacity overflow");
    assert!(len <= BACKING.len());
    // never written, never dropped (callers `mem::forget` the owner)
    unsafe { String::from_raw_parts(BACKING.as_ptr() as *mut u8, len, len) }
}

/// Model of `str::repeat` with the real contents for results of at most 64 bytes (asserted): the
/// bytes are appended one by one into a fixed-capacity buffer, so a *symbolic* count needs no
/// allocation of a symbolic size (CBMC aborts on that inside `slice::repeat`).
pub fn stub_str_repeat_bounded(s: &str, n: usize) -> String {
    let total = s.len().checked_mul(n).expect("capacity overflow");
    assert!(total <= 64, "stub_str_repeat_bounded: result longer than 64 bytes");
    let mut v: Vec<u8> = Vec::with_capacity(96);
    let b = s.as_bytes();
    let mut i = 0;
    while i < n {
        let mut j = 0;
        while j < b.len() {
            let l = v.len();
            unsafe {
                *v.as_mut_ptr().add(l) = b[j];
                v.set_len(l + 1);
            }
            j += 1;
        }
        i += 1;
    }
    unsafe { String::from_utf8_unchecked(v) }
}

// ---------------------------------------------------------------------------------------------
// Symbolic strings of exact length over a symbol table, and small string oracles.

/// `prefix` followed by `n` symbolic bytes drawn from `table` (exact length: one harness
/// instance per length).
pub fn sym_text(prefix: &[u8], n: usize, table: &[u8], suffix: &[u8]) -> &'static str {
    let mut v = Vec::with_capacity(prefix.len() + n + suffix.len());
    let mut k = 0;
    while k < prefix.len() {
        v.push(prefix[k]);
        k += 1;
    }
    let mut k = 0;
    while k < n {
        v.push(pick(table));
        k += 1;
    }
    let mut k = 0;
    while k < suffix.len() {
        v.push(suffix[k]);
        k += 1;
    }
    leak_str(v)
}

/// Blank test on bytes for texts whose only non-ASCII blank is U+3000 (E3 80 80): returns the
/// length of the blank starting at `i` (0 if the byte at `i` does not start a blank).
pub fn blank_len_at(s: &[u8], i: usize) -> usize {
    if s[i] <= 0x20 {
        1
    } else if s[i] == 0xE3 && i + 2 < s.len() && s[i + 1] == 0x80 && s[i + 2] == 0x80 {
        3
    } else {
        0
    }
}

/// nb(a) == nb(b): the subsequences of non-blank bytes are equal (byte-exact, case-sensitive).
/// `budget` bounds the loop (>= a.len() + b.len() + 1).
pub fn nb_eq(a: &[u8], b: &[u8], budget: usize) -> bool {
    let (mut i, mut j) = (0usize, 0usize);
    let mut steps = 0;
    while steps < budget {
        steps += 1;
        if i < a.len() {
            let bl = blank_len_at(a, i);
            if bl > 0 {
                i += bl;
                continue;
            }
        }
        if j < b.len() {
            let bl = blank_len_at(b, j);
            if bl > 0 {
                j += bl;
                continue;
            }
        }
        if i >= a.len() || j >= b.len() {
            return i >= a.len() && j >= b.len();
        }
        if a[i] != b[j] {
            return false;
        }
        i += 1;
        j += 1;
    }
    false
}

pub fn bytes_eq(a: &[u8], b: &[u8]) -> bool {
    if a.len() != b.len() {
        return false;
    }
    let mut i = 0;
    while i < a.len() {
        if a[i] != b[i] {
            return false;
        }
        i += 1;
    }
    true
}

pub fn contains_byte(a: &[u8], x: u8) -> bool {
    let mut i = 0;
    while i < a.len() {
        if a[i] == x {
            return true;
        }
        i += 1;
    }
    false
}

/// Copies a token's content into a leaked buffer (so that it survives later mutation).
pub fn snapshot(s: &str) -> &'static [u8] {
    let mut v = Vec::with_capacity(s.len());
    let b = s.as_bytes();
    let mut i = 0;
    while i < b.len() {
        v.push(b[i]);
        i += 1;
    }
    Box::leak(v.into_boxed_slice())
}

#[macro_export]
macro_rules! str_harness {
    ($(#[$m: meta])* fn $name: ident () unwind($u: expr) $body: block) => {
        $crate::harness! {
            $(#[$m])*
            fn $name() unwind($u) stubs(std::string::String::push_str => crate::common::stub_push_str, std::string::String::push => crate::common::stub_push, std::string::String::with_capacity => crate::common::stub_string_with_capacity, std::string::String::reserve => crate::common::stub_string_reserve, log::max_level => crate::common::stub_log_max_level_off, core::slice::memchr::memchr => crate::common::stub_memchr, core::slice::memchr::memrchr => crate::common::stub_memrchr) $body
        }
    };
}

/// `format!` builds warning/error messages only; its result is never inspected by the code
/// under test. Stub: empty string.
pub fn stub_fmt_format(_args: std::fmt::Arguments<'_>) -> String {
    String::new()
}

/// Naive models of core's internal byte searches (used by str::split / rfind / contains).
pub fn stub_memchr(x: u8, text: &[u8]) -> Option<usize> {
    let mut i = 0;
    while i < text.len() {
        if text[i] == x {
            return Some(i);
        }
        i += 1;
    }
    None
}

pub fn stub_memrchr(x: u8, text: &[u8]) -> Option<usize> {
    let mut i = text.len();
    while i > 0 {
        i -= 1;
        if text[i] == x {
            return Some(i);
        }
    }
    None
}

// TokenMarker is a hash set of token indices (hashbrown is far too expensive for CBMC): modelled
// as a 16-entry bitmap. Harnesses using these stubs only ever mark indices < 16.
pub static mut MARKS: [bool; 16] = [false; 16];

pub fn stub_marker_mark(_m: &mut pasfmt_core::formatter::TokenMarker, element: usize) -> bool {
    assert!(element < 16);
    unsafe {
        let was = MARKS[element];
        MARKS[element] = true;
        !was
    }
}

pub fn stub_marker_is_marked(_m: &pasfmt_core::formatter::TokenMarker, element: &usize) -> bool {
    if *element >= 16 {
        return false;
    }
    unsafe { MARKS[*element] }
}

// memchr crate (run-time CPU detection through inline asm is not encodable): naive loops.
pub fn stub_memchr1(n1: u8, haystack: &[u8]) -> Option<usize> {
    stub_memchr(n1, haystack)
}

pub fn stub_memchr2(n1: u8, n2: u8, haystack: &[u8]) -> Option<usize> {
    let mut i = 0;
    while i < haystack.len() {
        if haystack[i] == n1 || haystack[i] == n2 {
            return Some(i);
        }
        i += 1;
    }
    None
}

pub fn stub_memchr3(n1: u8, n2: u8, n3: u8, haystack: &[u8]) -> Option<usize> {
    let mut i = 0;
    while i < haystack.len() {
        if haystack[i] == n1 || haystack[i] == n2 || haystack[i] == n3 {
            return Some(i);
        }
        i += 1;
    }
    None
}

pub fn stub_memmem_find(haystack: &[u8], needle: &[u8]) -> Option<usize> {
    if needle.len() > haystack.len() {
        return None;
    }
    let mut s = 0;
    while s + needle.len() <= haystack.len() {
        let mut all = true;
        let mut k = 0;
        while k < needle.len() {
            all &= haystack[s + k] == needle[k];
            k += 1;
        }
        if all {
            return Some(s);
        }
        s += 1;
    }
    None
}

/// No logger is ever installed in pasfmt-core's callers under verification: `log::max_level()`
/// is `Off`, so every `warn!`/`debug!`/`trace!` reduces to this check. Stubbing it makes that
/// explicit for the solver (otherwise the whole `fmt` machinery behind each message is encoded).
pub fn stub_log_max_level_off() -> log::LevelFilter {
    log::LevelFilter::Off
}

/// Loop-free models of core's byte searches for haystacks of at most 24 bytes (asserted): CBMC
/// unwinds every loop to the harness bound, and these searches sit inside two further loops in
/// the cursor code, so a loop here multiplies the formula by the bound cubed.
pub fn stub_memchr_16(x: u8, t: &[u8]) -> Option<usize> {
    let n = t.len();
    assert!(n <= 24, "stub_memchr_16: haystack longer than 24 bytes");
    macro_rules! at { ($($i: expr),*) => { $( if n > $i && t[$i] == x { return Some($i); } )* } }
    at!(0, 1, 2, 3, 4, 5, 6, 7, 8, 9, 10, 11, 12, 13, 14, 15, 16, 17, 18, 19, 20, 21, 22, 23);
    None
}

pub fn stub_memrchr_16(x: u8, t: &[u8]) -> Option<usize> {
    let n = t.len();
    assert!(n <= 24, "stub_memrchr_16: haystack longer than 24 bytes");
    macro_rules! at { ($($i: expr),*) => { $( if n > $i && t[$i] == x { return Some($i); } )* } }
    at!(23, 22, 21, 20, 19, 18, 17, 16, 15, 14, 13, 12, 11, 10, 9, 8, 7, 6, 5, 4, 3, 2, 1, 0);
    None
}

/// The parser pass only ever *inserts* into `attributed_directives` (read later by `parse_file`,
/// outside the harness): the insertion is dropped (hashbrown's SIMD group probing is very
/// expensive to encode and irrelevant to the lines the pass returns).
#[cfg(kani)]
pub fn stub_hashset_insert<T: Eq + std::hash::Hash, S: std::hash::BuildHasher, A: std::alloc::Allocator>(
    _set: &mut std::collections::HashSet<T, S, A>,
    value: T,
) -> bool {
    std::mem::forget(value);
    true
}
#[cfg(not(kani))]
pub fn stub_hashset_insert<T: Eq + std::hash::Hash, S: std::hash::BuildHasher>(
    _set: &mut std::collections::HashSet<T, S>,
    value: T,
) -> bool {
    std::mem::forget(value);
    true
}

/// `String::with_capacity(n)` is a capacity *hint*: the model hands out a buffer of at least 96
/// bytes, so that later appends never need the (symbolic-size) reallocation path. Observationally
/// equivalent for code that does not inspect `capacity()` (pasfmt does not).
pub fn stub_string_with_capacity(n: usize) -> String {
    let v: Vec<u8> = Vec::with_capacity(if n > 96 { n } else { 96 });
    unsafe { String::from_utf8_unchecked(v) }
}

/// `String::reserve` is a capacity hint; buffers are pre-allocated (see `stub_string_with_capacity`)
/// and the append models assert that the capacity suffices, so the hint can be dropped. This
/// removes the (symbolic-size) reallocation path behind `String::extend`.
pub fn stub_string_reserve(_s: &mut String, _additional: usize) {}

/// `Vec::reserve` for buffers that were created with enough capacity: asserts that no growth is
/// needed (a reachable growth fails the harness) and thereby cuts the symbolic-size reallocation.
#[cfg(kani)]
pub fn stub_vec_reserve_no_growth<T, A: std::alloc::Allocator>(v: &mut Vec<T, A>, additional: usize) {
    assert!(v.capacity() - v.len() >= additional, "stub_vec_reserve_no_growth: growth needed");
}
#[cfg(not(kani))]
pub fn stub_vec_reserve_no_growth<T>(v: &mut Vec<T>, additional: usize) {
    v.reserve(additional)
}
