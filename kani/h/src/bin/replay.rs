//! Native replay of a solver counterexample: `replay <harness> "b,b,b;b;..."`.
//! Prints `REPLAY FAILED <panic message>` when the harness body panics on the recorded values
//! (the counterexample reproduces against the real build), `REPLAY PASSED` when it does not,
//! `REPLAY ASSUME/MISMATCH` when the values do not drive the harness along a feasible path.
#[cfg(kani)]
fn main() {}

#[cfg(not(kani))]
use pasfmt_verif_h::shim;

#[cfg(not(kani))]
fn main() {
    let args: Vec<String> = std::env::args().collect();
    if args.len() < 3 {
        eprintln!("usage: replay <harness> <values>");
        std::process::exit(2);
    }
    if args[1] == "--search" {
        search(&args[2]);
        return;
    }
    let name = &args[1];
    let values: Vec<Vec<u8>> = if args[2].is_empty() {
        vec![]
    } else {
        args[2]
            .split(';')
            .map(|v| {
                if v.is_empty() {
                    vec![]
                } else {
                    v.split(',').map(|b| b.trim().parse::<u8>().expect("byte")).collect()
                }
            })
            .collect()
    };
    let Some((_, f)) = pasfmt_verif_h::registry::all().into_iter().find(|(n, _)| n == name) else {
        println!("REPLAY UNKNOWN harness {name}");
        std::process::exit(2);
    };
    shim::load(values);
    std::panic::set_hook(Box::new(|_| {}));
    let r = std::panic::catch_unwind(f);
    for c in shim::covered() {
        println!("COVER {c}");
    }
    match r {
        Ok(()) => println!("REPLAY PASSED unconsumed={}", shim::remaining()),
        Err(e) => {
            if let Some(a) = e.downcast_ref::<shim::AssumeFailed>() {
                println!("REPLAY ASSUME {}", a.0);
            } else if let Some(m) = e.downcast_ref::<shim::ReplayMismatch>() {
                println!("REPLAY MISMATCH {}", m.0);
            } else if let Some(s) = e.downcast_ref::<String>() {
                println!("REPLAY FAILED {}", s.replace('\n', " "));
            } else if let Some(s) = e.downcast_ref::<&str>() {
                println!("REPLAY FAILED {}", s.replace('\n', " "));
            } else {
                println!("REPLAY FAILED <non-string panic>");
            }
        }
    }
}

/// Fallback when Kani cannot produce concrete values (trace generation out of memory): the solver
/// has already reported the harness as FAILED; look for a concrete witness natively by a bounded
/// depth-first enumeration of small candidate values for every `any()` call (assumptions prune).
#[cfg(not(kani))]
fn search(name: &str) {
    let Some((_, f)) = pasfmt_verif_h::registry::all().into_iter().find(|(n, _)| *n == name) else {
        println!("REPLAY UNKNOWN harness {name}");
        std::process::exit(2);
    };
    std::panic::set_hook(Box::new(|_| {}));
    let mut choices: Vec<usize> = Vec::new();
    let mut runs = 0u64;
    loop {
        runs += 1;
        if runs > 2_000_000 {
            println!("SEARCH EXHAUSTED-BUDGET runs={runs}");
            return;
        }
        shim::search_begin(choices.clone());
        let r = std::panic::catch_unwind(f);
        let st = shim::search_end();
        let failed = match &r {
            Ok(()) => None,
            Err(e) => {
                if e.downcast_ref::<shim::AssumeFailed>().is_some() || e.downcast_ref::<shim::ReplayMismatch>().is_some() {
                    None
                } else if let Some(s) = e.downcast_ref::<String>() {
                    Some(s.replace('\n', " "))
                } else if let Some(s) = e.downcast_ref::<&str>() {
                    Some(s.replace('\n', " "))
                } else {
                    Some("<non-string panic>".to_string())
                }
            }
        };
        if let Some(msg) = failed {
            let vals: Vec<String> = st.taken.iter().map(|v| v.iter().map(|b| b.to_string()).collect::<Vec<_>>().join(",")).collect();
            println!("SEARCH FOUND runs={runs} values={}", vals.join(";"));
            println!("REPLAY FAILED {msg}");
            return;
        }
        // advance the odometer over the choice points actually visited in this run
        let mut c = st.choices[..st.next.min(st.choices.len())].to_vec();
        let lim = st.limits;
        loop {
            match c.pop() {
                None => {
                    println!("SEARCH EXHAUSTED runs={runs}");
                    return;
                }
                Some(v) => {
                    let k = c.len();
                    if v + 1 < lim[k] {
                        c.push(v + 1);
                        break;
                    }
                }
            }
        }
        choices = c;
    }
}
