//! Native replay of a solver counterexample: `replay <harness> "b,b,b;b;..."`.
//! Prints `REPLAY FAILED <panic message>` when the harness body panics on the recorded values
//! (the counterexample reproduces against the real build), `REPLAY PASSED` when it does not,
//! `REPLAY ASSUME/MISMATCH` when the values do not drive the harness along a feasible path.
#[cfg(kani)]
fn main() {}

#[cfg(not(kani))]
use pasfmt_verif_h::shim;

#[cfg(not(kani))]
fn main() {
    let args: Vec<String> = std::env::args().collect();
    if args.len() < 3 {
        eprintln!("usage: replay <harness> <values>");
        std::process::exit(2);
    }
    let name = &args[1];
    let values: Vec<Vec<u8>> = if args[2].is_empty() {
        vec![]
    } else {
        args[2]
            .split(';')
            .map(|v| {
                if v.is_empty() {
                    vec![]
                } else {
                    v.split(',').map(|b| b.trim().parse::<u8>().expect("byte")).collect()
                }
            })
            .collect()
    };
    let Some((_, f)) = pasfmt_verif_h::registry::all().into_iter().find(|(n, _)| n == name) else {
        println!("REPLAY UNKNOWN harness {name}");
        std::process::exit(2);
    };
    shim::load(values);
    std::panic::set_hook(Box::new(|_| {}));
    let r = std::panic::catch_unwind(f);
    for c in shim::covered() {
        println!("COVER {c}");
    }
    match r {
        Ok(()) => println!("REPLAY PASSED unconsumed={}", shim::remaining()),
        Err(e) => {
            if let Some(a) = e.downcast_ref::<shim::AssumeFailed>() {
                println!("REPLAY ASSUME {}", a.0);
            } else if let Some(m) = e.downcast_ref::<shim::ReplayMismatch>() {
                println!("REPLAY MISMATCH {}", m.0);
            } else if let Some(s) = e.downcast_ref::<String>() {
                println!("REPLAY FAILED {}", s.replace('\n', " "));
            } else if let Some(s) = e.downcast_ref::<&str>() {
                println!("REPLAY FAILED {}", s.replace('\n', " "));
            } else {
                println!("REPLAY FAILED <non-string panic>");
            }
        }
    }
}
