//! C08 — canonical output whitespace (stage contracts + rendering).
use crate::common::*;
use crate::rmodel::*;
use crate::{cover, harness, recon_harness};
use pasfmt_core::lang::*;
use pasfmt_core::prelude::{EofNewline, OptimisingLineFormatter, OptimisingLineFormatterSettings, TokenSpacing};
use pasfmt_core::rules::optimising_line_formatter::verif_hooks_olf as olf_hooks;
use pasfmt_core::traits::{LogicalLineFileFormatter, LogicalLineFormatter};

fn is_nl(b: u8) -> bool {
    b == b'\n' || b == b'\r'
}

/// R1: rendering of a state that satisfies the stage contracts K-SPC / K-OLF / K-BRK / K-EOF.
fn r1_body(hard: bool, iw: u8, cw: u8) {
    let s = Settings { crlf: kani::any(), hard, iw, cw };
    let a_kind = pick(&KINDS_FOR_RECON);
    let mut b = any_counters(2, 1);
    // K-OLF: continue => no indentation; break => spaces zeroed
    kani::assume(b.nl > 0 || (b.ind == 0 && b.cont == 0));
    kani::assume(b.nl == 0 || b.sp == 0);
    // K-BRK: a break follows line comments and unterminated literals
    let needs_break = is_singleline_comment(a_kind)
        || matches!(a_kind, TokenType::TextLiteral(TextLiteralKind::Unterminated));
    kani::assume(!needs_break || b.nl > 0);
    let zero = Counters { ignored: false, nl: 0, ind: 0, cont: 0, sp: 0 };
    let eof = Counters { ignored: false, nl: 1, ind: 0, cont: 0, sp: 0 };
    let l = run3(
        [
            RTok { text: "ab", ws_len: 0, kind: a_kind, c: zero },
            RTok { text: "Cd", ws_len: 0, kind: TokenType::Identifier, c: b },
            RTok { text: "", ws_len: 0, kind: TokenType::Eof, c: eof },
        ],
        s,
    );
    let out = l.out;
    let n = out.len();
    let nl_len = if s.crlf { 2 } else { 1 };
    // no blank line at the start of the file
    assert!(!is_nl(out[0]));
    // ends with exactly one line terminator
    assert!(out[n - 1] == b'\n' && !is_nl(out[n - 1 - nl_len]));
    if s.crlf {
        assert!(out[n - 2] == b'\r');
    }
    let i: usize = kani::any();
    kani::assume(i < n);
    // no line ends in blanks
    if i > 0 && is_nl(out[i]) {
        assert!(out[i - 1] != b' ' && out[i - 1] != b'\t');
    }
    // never two consecutive blank lines
    if i + 3 * nl_len <= n {
        let mut all = true;
        let mut k = 0;
        while k < 3 * nl_len {
            all &= is_nl(out[i + k]);
            k += 1;
        }
        assert!(!all);
    }
    // inside a line: at most one space, never a tab
    if b.nl == 0 {
        assert!(l.start[1] - l.ws_start[1] <= 1);
        if i >= l.ws_start[1] && i < l.start[1] {
            assert!(out[i] == b' ');
        }
    } else if i >= l.ws_start[1] + b.nl as usize * nl_len && i < l.start[1] {
        // indentation: whole units of the configured character only
        assert!(out[i] == if hard { b'\t' } else { b' ' });
        assert!(l.start[1] - (l.ws_start[1] + b.nl as usize * nl_len) == b.ind as usize * iw as usize + b.cont as usize * cw as usize);
    }
    cover!(b.nl == 2 && b.ind == 2 && b.cont == 2, "blank_line_and_deep_indent");
    cover!(b.nl == 0 && b.sp == 1, "same_line");
    cover!(s.crlf && needs_break, "crlf_after_comment");
}

macro_rules! r1 { ($($name: ident => ($h: expr, $iw: expr, $cw: expr)),*) => {$(
    recon_harness! { fn $name() unwind(8) { r1_body($h, $iw, $cw) } }
)*}}
r1! {
    c08_r1_render_soft_w2_w4 => (false, 2, 4),
    c08_r1_render_hard_w1_w2 => (true, 1, 2),
    c08_r1_render_soft_w3_w1 => (false, 3, 1)
}

fn any_fd_full() -> FormattingData {
    fd(false, kani::any(), kani::any(), kani::any(), kani::any())
}

/// S1 (K-SPC): after the real `TokenSpacing::format`, for every kind triple, arbitrary original
/// counters and ignored flags, spaces_before is 0 or 1 -- except for the token directly after an
/// inline line comment (always broken off later, K-BRK) -- and 0 for the first token; no other
/// counter and no ignored flag is touched (asserted inside `run_spacing`).
fn s1_body<const N: usize>() {
    let mut kinds = [TokenType::Identifier; N];
    let mut k = 0;
    while k < N {
        kinds[k] = any_token_type();
        k += 1;
    }
    let o = crate::spacing::any_orig::<N>();
    let sp = crate::spacing::run_spacing(&kinds, &o);
    assert!(sp[0] == 0);
    let mut i = 1;
    while i < N {
        let after_inline_line_comment = kinds[i - 1] == TokenType::Comment(CommentKind::InlineLine);
        if !after_inline_line_comment {
            assert!(sp[i] <= 1, "more than one space between two tokens");
        }
        i += 1;
    }
    cover!(sp[1] == 1 && sp[2] == 0, "one_then_zero");
}
harness! { fn c08_s1_spacing_zero_or_one_3kinds() unwind(6) { s1_body::<3>() } }
harness! { fn c08_s1_spacing_zero_or_one_4kinds() unwind(7) { s1_body::<4>() } }

harness! {
    /// S2: the tail of the real `OptimisingLineFormatter::format` (no logical lines => the search
    /// is skipped): newlines_before > 0 => spaces_before == 0; nothing else is touched.
    fn c08_s2_olf_zeroes_spaces_at_line_start() unwind(5) {
        let settings = OptimisingLineFormatterSettings { max_line_length: kani::any(), iteration_max: 10, break_before_begin: kani::any(), format_multiline_strings: kani::any() };
        let olf = OptimisingLineFormatter::new(settings, recon_settings(false, false, 2, 4));
        let kinds = [any_token_type(), any_token_type(), TokenType::Eof];
        let tokens = vec![tok("ab", 0, kinds[0]), tok("cd", 0, kinds[1]), tok("", 0, kinds[2])];
        let before: [(u16, u16, u16, u16); 3] = [(kani::any(), kani::any(), kani::any(), kani::any()), (kani::any(), kani::any(), kani::any(), kani::any()), (kani::any(), kani::any(), kani::any(), kani::any())];
        let ig: [bool; 3] = [kani::any(), kani::any(), kani::any()];
        let fmt = vec![fd(ig[0], before[0].0, before[0].1, before[0].2, before[0].3), fd(ig[1], before[1].0, before[1].1, before[1].2, before[1].3), fd(ig[2], before[2].0, before[2].1, before[2].2, before[2].3)];
        let mut ft = FormattedTokens::verif_new(leak_tokens(tokens), fmt);
        olf.format(&mut ft, &[]);
        let mut i = 0;
        while i < 3 {
            let d = ft.get_formatting_data(i).unwrap();
            assert!(d.newlines_before == before[i].0 && d.indentations_before == before[i].1 && d.continuations_before == before[i].2);
            assert!(d.spaces_before == if before[i].0 > 0 { 0 } else { before[i].3 });
            assert!(d.is_ignored() == ig[i]);
            i += 1;
        }
        cover!(before[1].0 > 0 && before[1].3 > 0, "space_zeroed");
        std::mem::forget(ft);
        std::mem::forget(olf);
    }
}

harness! {
    /// S3 (K-OLF): the real `reconstruct_solution` on a childless solution for a 3-token line:
    /// break on the first token => newlines clamped into 1..=2 (the blank-line grouping), other
    /// break => exactly 1, continue => (0,0,0); indentation/continuation copied from the solution;
    /// spaces untouched.
    fn c08_s3_apply_solution_counters() unwind(5) {
        let settings = OptimisingLineFormatterSettings { max_line_length: 120, iteration_max: 10, break_before_begin: false, format_multiline_strings: true };
        let rs = recon_settings(false, false, 2, 4);
        let tokens = vec![tok("ab", 0, any_token_type()), tok("cd", 0, any_token_type()), tok("ef", 0, any_token_type())];
        let before: [(u16, u16, u16, u16); 3] = [(kani::any(), kani::any(), kani::any(), kani::any()), (kani::any(), kani::any(), kani::any(), kani::any()), (kani::any(), kani::any(), kani::any(), kani::any())];
        // ignored flags symbolic: a solution is applied to every token of the line all the same
        // (the reconstructor, not this step, is what keeps ignored tokens verbatim)
        let ig: [bool; 3] = [kani::any(), kani::any(), kani::any()];
        let fmt = vec![fd(ig[0], before[0].0, before[0].1, before[0].2, before[0].3), fd(ig[1], before[1].0, before[1].1, before[1].2, before[1].3), fd(ig[2], before[2].0, before[2].1, before[2].2, before[2].3)];
        let mut ft = FormattedTokens::verif_new(leak_tokens(tokens), fmt);
        let line = LogicalLine::new(None, 0, vec![0, 1, 2], LogicalLineType::Unknown);
        let start: (u16, u16) = (any_upto(1000), any_upto(1000));
        let dec = |brk: bool, c: u16| if brk { Some(c) } else { None };
        let d: [(bool, u16); 3] = [(kani::any(), 0), (kani::any(), any_upto(1000)), (kani::any(), any_upto(1000))];
        let decisions = [dec(d[0].0, d[0].1), dec(d[1].0, d[1].1), dec(d[2].0, d[2].1)];
        olf_hooks::apply_solution(&settings, &rs, &mut ft, &line, start, &decisions);
        let mut i = 0;
        while i < 3 {
            let f = ft.get_formatting_data(i).unwrap();
            if d[i].0 {
                if i == 0 {
                    assert!(f.newlines_before == if before[0].0 < 1 { 1 } else if before[0].0 > 2 { 2 } else { before[0].0 });
                } else {
                    assert!(f.newlines_before == 1);
                }
                assert!(f.indentations_before == start.0 && f.continuations_before == start.1 + d[i].1);
            } else {
                assert!(f.newlines_before == 0 && f.indentations_before == 0 && f.continuations_before == 0);
            }
            assert!(f.spaces_before == before[i].3);
            assert!(f.is_ignored() == ig[i]);
            i += 1;
        }
        cover!(ig[0] && !ig[2], "ignored_first_token");
        cover!(d[0].0 && before[0].0 > 2, "clamped_down");
        cover!(d[0].0 && before[0].0 == 0, "clamped_up");
        std::mem::forget(ft);
        std::mem::forget(line);
    }
}

harness! {
    /// S4 (K-EOF): the real `EofNewline::format`: a trailing EOF token gets exactly (1,0,0,0);
    /// nothing else changes; without a trailing EOF token nothing changes.
    fn c08_s4_eof_newline() unwind(5) {
        let last = any_token_type();
        let tokens = vec![tok("ab", 0, any_token_type()), tok("", 0, last)];
        let before: [(u16, u16, u16, u16); 2] = [(kani::any(), kani::any(), kani::any(), kani::any()), (kani::any(), kani::any(), kani::any(), kani::any())];
        let fmt = vec![fd(false, before[0].0, before[0].1, before[0].2, before[0].3), fd(false, before[1].0, before[1].1, before[1].2, before[1].3)];
        let mut ft = FormattedTokens::verif_new(leak_tokens(tokens), fmt);
        let line = LogicalLine::new(None, 0, vec![1], LogicalLineType::Eof);
        EofNewline {}.format(&mut ft, &line);
        let f0 = ft.get_formatting_data(0).unwrap();
        assert!((f0.newlines_before, f0.indentations_before, f0.continuations_before, f0.spaces_before) == before[0]);
        let f1 = ft.get_formatting_data(1).unwrap();
        let got = (f1.newlines_before, f1.indentations_before, f1.continuations_before, f1.spaces_before);
        if last == TokenType::Eof {
            assert!(got == (1, 0, 0, 0));
        } else {
            assert!(got == before[1]);
        }
        cover!(last == TokenType::Eof, "eof_last");
        std::mem::forget(ft);
        std::mem::forget(line);
    }
}
