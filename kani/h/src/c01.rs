//! C01 -- non-blank characters preserved, in order (compositional).
use crate::common::*;
use crate::rmodel::*;
use crate::{cover, harness, recon_harness};
use pasfmt_core::lang::*;

/// P5: the real reconstructor emits each token's content exactly once, in order, and everything
/// else it emits is a blank (space, tab, CR, LF) -- for arbitrary counters (no stage contract
/// assumed), any relevant kind of the first token, with/without ignored tokens.
/// `slice` selects which token's counters are symbolic (the others are fixed small values).
fn p5_body(slice: u8, hard: bool, iw: u8, cw: u8, ign_ws: usize) {
    let s = Settings { crlf: kani::any(), hard, iw, cw };
    let fixed = Counters { ignored: false, nl: 1, ind: 1, cont: 0, sp: 1 };
    let a_kind = pick(&KINDS_FOR_RECON);
    let mut ca = fixed;
    let mut cb = fixed;
    let mut ce = fixed;
    match slice {
        0 => ca = any_counters(2, 2),
        1 => cb = any_counters(2, 2),
        _ => ce = any_counters(2, 2),
    }
    let mut b_text = "Cd";
    let mut b_ws = 0u32;
    if ign_ws > 0 {
        // an ignored token keeps its original leading whitespace (any blanks incl. CR/LF/tab)
        cb.ignored = kani::any();
        b_text = text_with_ws(ign_ws, &[b' ', b'\n', b'\r', b'\t'], b"Cd");
        b_ws = ign_ws as u32;
    }
    let l = run3(
        [
            RTok { text: "ab", ws_len: 0, kind: a_kind, c: ca },
            RTok { text: b_text, ws_len: b_ws, kind: TokenType::Identifier, c: cb },
            RTok { text: "", ws_len: 0, kind: TokenType::Eof, c: ce },
        ],
        s,
    );
    // independent statement of the property on the real output: exactly 4 non-blank bytes
    // would need a loop; instead: every byte outside the two content windows is a blank
    let i: usize = kani::any();
    kani::assume(i < l.out.len());
    let in_a = i >= l.start[0] && i < l.start[0] + 2;
    let in_b = i >= l.start[1] && i < l.start[1] + 2;
    if !in_a && !in_b {
        let b = l.out[i];
        assert!(b == b' ' || b == b'\t' || b == b'\r' || b == b'\n', "only blanks between contents");
    }
    assert!(l.start[0] + 2 <= l.start[1] && l.start[1] + 2 <= l.out.len(), "contents in order, once");
    if slice == 1 { cover!(is_singleline_comment(a_kind) && l.inserted[1] > 0, "safety_net_fired"); }
    if ign_ws > 0 { cover!(cb.ignored, "ignored_token"); }
    cover!(l.out.len() > 4, "checked_with_blanks");
}

macro_rules! p5 { ($($name: ident => ($sl: expr, $h: expr, $iw: expr, $cw: expr, $ig: expr)),*) => {$(
    recon_harness! { fn $name() unwind(8) { p5_body($sl, $h, $iw, $cw, $ig) } }
)*}}
p5! {
    c01_p5_recon_tokA_soft => (0, false, 2, 4, 0),
    c01_p5_recon_tokB_soft => (1, false, 2, 4, 0),
    c01_p5_recon_tokB_hard_ignored_ws2 => (1, true, 1, 2, 2),
    c01_p5_recon_eof_soft => (2, false, 1, 1, 0),
    c01_p5_recon_tokB_soft_ignored_ws1 => (1, false, 2, 2, 1)
}

// ---------------------------------------------------------------------------------------------
use pasfmt_core::prelude::{CommentFormatter, LowercaseKeywords};
use pasfmt_core::rules::comment_contents::verif_hooks_comments as cc;
use pasfmt_core::traits::LogicalLineFileFormatter;
use crate::str_harness;

/// Alphabet of the line-comment harnesses: every byte class `format_line_comment` distinguishes
/// (slash, ASCII whitespace incl. VT which is *not* ASCII whitespace for Rust, alphanumeric,
/// punctuation).
pub use crate::c01_tables::LC_SIGMA;

/// P2: real `format_line_comment`: the non-blank characters are preserved exactly (no case
/// change), the result still starts with `//` and contains no line break.
pub fn p2_body(n: usize, pre: &'static [u8], suf: &'static [u8]) {
    let text = sym_text(b"//", 0, &[], &[]);
    let _ = text;
    let mut v = Vec::with_capacity(2 + pre.len() + n + suf.len());
    v.push(b'/');
    v.push(b'/');
    let mut k = 0;
    while k < pre.len() { v.push(pre[k]); k += 1; }
    let mut k = 0;
    while k < n { v.push(pick(&LC_SIGMA)); k += 1; }
    let mut k = 0;
    while k < suf.len() { v.push(suf[k]); k += 1; }
    let input = leak_str(v);
    let kind = if kani::any() { CommentKind::InlineLine } else { CommentKind::IndividualLine };
    let mut t = tok(input, 0, TokenType::Comment(kind));
    cc::format_line_comment(&mut t);
    let out = t.get_content().as_bytes();
    let inp = input.as_bytes();
    assert!(out.len() >= 2 && out[0] == b'/' && out[1] == b'/');
    assert!(out.len() <= inp.len() + 1);
    assert!(nb_eq(inp, out, 2 * inp.len() + 4), "non-blank characters preserved");
    assert!(!contains_byte(out, b'\n') && !contains_byte(out, b'\r'));
    assert!(t.get_token_type() == TokenType::Comment(kind));
    cover!(out.len() == inp.len() + 1, "space_inserted");
    cover!(out.len() < inp.len(), "trimmed");
    std::mem::forget(t);
}

macro_rules! p2 { ($($name: ident => ($n: expr, $pre: expr, $suf: expr)),*) => {$(
    str_harness! { fn $name() unwind(28) { p2_body($n, $pre, $suf) } }
)*}}
p2! {
    c01_p2_line_comment_len2 => (2, b"", b""),
    c01_p2_line_comment_len3 => (3, b"", b""),
    c01_p2_line_comment_len4 => (4, b"", b""),
    c01_p2_line_comment_len5 => (5, b"", b""),
    c01_p2_line_comment_e_acute_first => (2, "\u{e9}".as_bytes(), b""),
    c01_p2_line_comment_ideographic_space_last => (2, b"", "\u{3000}".as_bytes()),
    c01_p2_line_comment_ideographic_space_first => (2, "\u{3000}".as_bytes(), b"")
}

/// P1: real `LowercaseKeywords::format`: content changes only for non-ignored `Keyword(_)`
/// tokens and then is the ASCII-lower-cased original; kind and other tokens untouched.
fn p1_body(n: usize) {
    let kind = any_token_type();
    let ignored: bool = kani::any();
    let input = sym_text(b"", n, &[b'A', b'z', b'_', b'1', b'Q'], b"");
    let tokens = vec![tok(input, 0, kind), tok("Xy", 0, TokenType::Identifier)];
    let mut ft = FormattedTokens::verif_new(leak_tokens(tokens), vec![fd(ignored, 0, 0, 0, 0), fd(false, 0, 0, 0, 1)]);
    LowercaseKeywords {}.format(&mut ft, &[]);
    let (t, _) = ft.get_token(0).unwrap();
    let out = t.get_content().as_bytes();
    let inp = input.as_bytes();
    assert!(out.len() == inp.len());
    assert!(t.get_token_type() == kind);
    let is_kw = matches!(kind, TokenType::Keyword(_));
    let mut i = 0;
    while i < n {
        if is_kw && !ignored {
            assert!(out[i] == inp[i].to_ascii_lowercase());
        } else {
            assert!(out[i] == inp[i], "only keywords change case");
        }
        i += 1;
    }
    assert!(bytes_eq(ft.get_token(1).unwrap().0.get_content().as_bytes(), b"Xy"));
    cover!(is_kw && !ignored && out[0] != inp[0], "lowercased");
    std::mem::forget(ft);
}
macro_rules! p1 { ($($name: ident => ($n: expr)),*) => {$(
    str_harness! { fn $name() unwind(8) { p1_body($n) } }
)*}}
p1! { c01_p1_lowercase_len1 => (1), c01_p1_lowercase_len3 => (3), c01_p1_lowercase_len4 => (4) }

pub use crate::c01_tables::DIR_SIGMA;

fn is_directive_byte(b: u8) -> bool {
    b.is_ascii_alphanumeric() || b == b'_' || b == b'+' || b == b'-' || b == b','
}

/// P3: real `format_compiler_directive`: same length, equal ignoring ASCII case, every changed
/// byte is a lower-case letter turned upper-case inside the directive-name prefix.
pub fn p3_body(n: usize, opener: &'static [u8]) {
    let input = sym_text(opener, n, &DIR_SIGMA, b"");
    let kind = if kani::any() { TokenType::CompilerDirective } else { TokenType::ConditionalDirective(ConditionalDirectiveKind::Ifdef) };
    let mut t = tok(input, 0, kind);
    cc::format_compiler_directive(&mut t);
    let out = t.get_content().as_bytes();
    let inp = input.as_bytes();
    assert!(out.len() == inp.len());
    let mut in_prefix = true;
    let mut i = 0;
    while i < inp.len() {
        if i >= opener.len() {
            in_prefix = in_prefix && is_directive_byte(inp[i]);
        }
        if out[i] != inp[i] {
            assert!(i >= opener.len() && in_prefix, "change outside the directive name");
            assert!(inp[i].is_ascii_lowercase() && out[i] == inp[i].to_ascii_uppercase());
        }
        i += 1;
    }
    assert!(t.get_token_type() == kind);
    cover!(!bytes_eq(out, inp), "uppercased");
    std::mem::forget(t);
}
macro_rules! p3 { ($($name: ident => ($n: expr, $op: expr)),*) => {$(
    str_harness! { fn $name() unwind(14) { p3_body($n, $op) } }
)*}}
p3! {
    c01_p3_directive_brace_len2 => (2, b"{$"),
    c01_p3_directive_brace_len4 => (4, b"{$"),
    c01_p3_directive_brace_len5 => (5, b"{$"),
    c01_p3_directive_parenstar_len4 => (4, b"(*$"),
    c01_p3_directive_brace_len6 => (6, b"{$")
}
