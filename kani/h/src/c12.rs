//! C12 -- multi-line string literals keep their value.
use crate::common::*;
use crate::{cover, harness, str_harness, note};
use pasfmt_core::lang::*;
use pasfmt_core::rules::optimising_line_formatter::verif_hooks_olf::multiline_strings as ms;

const CAP: usize = 96;

struct Buf {
    b: [u8; CAP],
    n: usize,
}
impl Buf {
    fn new() -> Self {
        Buf { b: [0; CAP], n: 0 }
    }
    fn push(&mut self, x: u8) {
        self.b[self.n] = x;
        self.n += 1;
    }
    fn extend(&mut self, s: &[u8]) {
        let mut k = 0;
        while k < s.len() {
            self.push(s[k]);
            k += 1;
        }
    }
}

fn is_blank_byte(b: u8) -> bool {
    b <= 0x20
}

fn starts_with(a: &[u8], p: &[u8]) -> bool {
    if p.len() > a.len() {
        return false;
    }
    let mut k = 0;
    while k < p.len() {
        if a[k] != p[k] {
            return false;
        }
        k += 1;
    }
    true
}

/// Reference (written from the property statement, ASCII blanks only): interior lines end at LF,
/// CRLF or CR; base = leading blanks of the last line, which must otherwise consist of quotes;
/// every later line must start with base (=> base replaced by the target indentation, unless
/// nothing is left) or be a prefix of base (=> emptied); otherwise the literal is left alone.
/// Returns None for "left alone".
fn ref_rewrite(lit: &[u8], nl: &[u8], indent: &[u8]) -> Option<Buf> {
    // line boundaries
    let mut starts = [0usize; 8];
    let mut ends = [0usize; 8];
    let mut nlines = 0;
    let mut i = 0;
    let mut cur = 0;
    while i <= lit.len() {
        if i == lit.len() || lit[i] == b'\n' || lit[i] == b'\r' {
            starts[nlines] = cur;
            ends[nlines] = i;
            nlines += 1;
            if i < lit.len() && lit[i] == b'\r' && i + 1 < lit.len() && lit[i + 1] == b'\n' {
                i += 1;
            }
            cur = i + 1;
        }
        i += 1;
    }
    let last = &lit[starts[nlines - 1]..ends[nlines - 1]];
    // leading blanks of the last line: code points <= U+0020 and U+3000
    let mut bl = 0;
    while bl < last.len() {
        let l = blank_len_at(last, bl);
        if l == 0 {
            break;
        }
        bl += l;
    }
    let mut k = bl;
    while k < last.len() {
        if last[k] != b'\'' {
            return None;
        }
        k += 1;
    }
    let base = &last[..bl];
    let mut out = Buf::new();
    out.extend(&lit[starts[0]..ends[0]]);
    let mut l = 1;
    while l < nlines {
        let line = &lit[starts[l]..ends[l]];
        out.extend(nl);
        if starts_with(line, base) {
            if line.len() > base.len() {
                out.extend(indent);
                out.extend(&line[base.len()..]);
            }
        } else if !starts_with(base, line) {
            return None;
        }
        l += 1;
    }
    Some(out)
}

/// M1: the real `format_multiline_strings` on one MultiLine token vs the reference. `shape`
/// describes the literal: `q` = quote run `'''` (opening / closing), `L`/`C`/`R` = LF / CRLF / CR,
/// `b` = symbolic blank (space or tab), `x` = symbolic content byte (letter, quote, space, tab).
fn m1_body(shape: &'static [u8], hard: bool, iw: u8, cw: u8, crlf: bool) {
    let mut v = Vec::with_capacity(CAP);
    let mut k = 0;
    while k < shape.len() {
        match shape[k] {
            b'q' => { v.push(b'\''); v.push(b'\''); v.push(b'\''); }
            b'Q' => { v.push(b'\''); v.push(b'\''); v.push(b'\''); v.push(b'\''); v.push(b'\''); }
            b'L' => v.push(b'\n'),
            b'C' => { v.push(b'\r'); v.push(b'\n'); }
            b'R' => v.push(b'\r'),
            b'b' => v.push(pick(&[b' ', b'\t'])),
            _ => v.push(pick(&[b'a', b'\'', b' ', b'\t'])),
        }
        k += 1;
    }
    let lit = leak_str(v);
    m1_check(lit, hard, iw, cw, crlf, shape);
}

/// Common part of M1: runs the real rule on `lit` with a symbolic target layout and compares
/// with the reference.
fn m1_check(lit: &'static str, hard: bool, iw: u8, cw: u8, crlf: bool, shape: &'static [u8]) {
    let ind = any_upto(2);
    let cont = any_upto(2);
    // concrete: a symbolic flag here turns the `Result<&mut Token, _>` handed out by
    // `get_token_mut` into a merged value whose pointer CBMC no longer constant-propagates, and
    // every string loop behind it is then unwound to the bound (measured: minutes -> out of memory)
    let ignored = shape.len() > 0 && shape[0] == b'!';
    let rs = recon_settings(crlf, hard, iw, cw);
    // tokens on the stack, not in a Vec: the literal's bytes must stay constants for CBMC
    let mut toks = [tok(lit, 0, TokenType::TextLiteral(TextLiteralKind::MultiLine))];
    let mut ft = FormattedTokens::verif_new(&mut toks, vec![fd(ignored, 1, ind, cont, 0)]);
    let line = LogicalLine::new(None, 0, vec![0], LogicalLineType::Assignment);
    let changed = ms::format_multiline_strings(&rs, &line, &mut ft);
    let (t, f) = ft.get_token(0).unwrap();
    let out = t.get_content().as_bytes();
    assert!(t.get_token_type() == TokenType::TextLiteral(TextLiteralKind::MultiLine));
    assert!(f.indentations_before == ind && f.continuations_before == cont && f.newlines_before == 1);

    // target indentation as the reconstructor will render it for this token
    let mut indent = Buf::new();
    let unit = if hard { b'\t' } else { b' ' };
    let mut k = 0;
    while k < ind as usize * iw as usize + cont as usize * cw as usize {
        indent.push(unit);
        k += 1;
    }
    let nl: &[u8] = if crlf { b"\r\n" } else { b"\n" };
    let want = if ignored { None } else { ref_rewrite(lit.as_bytes(), nl, &indent.b[..indent.n]) };
    note!("shape", std::str::from_utf8(shape).unwrap());
    match want {
        None => {
            assert!(bytes_eq(out, lit.as_bytes()), "a literal that must be left alone was modified");
            assert!(!changed);
        }
        Some(w) => {
            assert!(out.len() == w.n, "re-indented literal has the wrong length");
            let i: usize = kani::any();
            kani::assume(i < w.n);
            assert!(out[i] == w.b[i], "re-indented literal differs from the reference");
            assert!(changed == !bytes_eq(out, lit.as_bytes()));
        }
    }
    cover!(changed, "rewritten");
    cover!(!changed, "left_alone");
    std::mem::forget(ft);
    std::mem::forget(line);
}
macro_rules! m1 { ($($name: ident => ($u: expr; $sh: expr, $h: expr, $iw: expr, $cw: expr, $crlf: expr)),*) => {$(
    str_harness! { fn $name() unwind($u) { m1_body($sh, $h, $iw, $cw, $crlf) } }
)*}}
m1! {
    c12_m1_one_line_lf => (18; b"qLbbxxLbbq", false, 2, 4, false),
    c12_m1_one_line_crlf_to_lf => (18; b"qCbxxCbq", false, 2, 2, false),
    c12_m1_one_line_lf_to_crlf => (16; b"qLbxxLbq", true, 1, 1, true),
    c12_m1_one_line_cr => (16; b"qRbxxRbq", false, 2, 2, false),
    c12_m1_two_lines_mixed => (20; b"qLbxLbbxCbq", false, 1, 2, true),
    c12_m1_blank_and_short_lines => (20; b"qLbLLbbxLbbq", false, 2, 2, false),
    c12_m1_five_quotes => (20; b"QLbxxLbQ", false, 2, 2, false),
    c12_m1_no_base => (14; b"qLxxLq", false, 2, 4, false),
    c12_m1_short_nonblank_line => (16; b"qLxLbbbq", false, 2, 2, false),
    c12_m1_cr_then_lf_lines => (24; b"qLbxRbxLbxLbq", false, 2, 2, true),
    c12_m1_crlf_then_empty_lf_line => (22; b"qLbxCLbxLbq", false, 2, 2, false)
}

/// M5: two multi-line literals in ONE logical line, both in need of re-indentation: both are
/// rewritten in the same pass (each == reference).
fn m5_body(hard: bool, iw: u8, cw: u8) {
    let lit_a: &'static str = "\'\'\'\n a\n \'\'\'";
    let lit_b: &'static str = "\'\'\'\n   b\n   \'\'\'";
    let crlf = hard;
    let rs = recon_settings(crlf, hard, iw, cw);
    // the first literal's target is concrete (and differs from its current indentation, so it is
    // certainly rewritten); the second one's is symbolic
    let (ia, ca) = (1u16, 0u16);
    let (ib, cb) = (any_upto(1), any_upto(1));
    let mut toks = [
        tok(lit_a, 0, TokenType::TextLiteral(TextLiteralKind::MultiLine)),
        tok(",", 0, TokenType::Op(OperatorKind::Comma)),
        tok(lit_b, 0, TokenType::TextLiteral(TextLiteralKind::MultiLine)),
    ];
    let mut ft = FormattedTokens::verif_new(&mut toks, vec![fd(false, 1, ia, ca, 0), fd(false, 0, 0, 0, 0), fd(false, 1, ib, cb, 0)]);
    let line = LogicalLine::new(None, 0, vec![0, 1, 2], LogicalLineType::Unknown);
    let changed = ms::format_multiline_strings(&rs, &line, &mut ft);
    let nl: &[u8] = if crlf { b"\r\n" } else { b"\n" };
    let unit = if hard { b'\t' } else { b' ' };
    let mut k = 0;
    while k < 2 {
        let (idx, lit, i, c) = if k == 0 { (0, lit_a, ia, ca) } else { (2, lit_b, ib, cb) };
        let mut indent = Buf::new();
        let mut j = 0;
        while j < i as usize * iw as usize + c as usize * cw as usize {
            indent.push(unit);
            j += 1;
        }
        let want = ref_rewrite(lit.as_bytes(), nl, &indent.b[..indent.n]).expect("conforming literal");
        let out = ft.get_token(idx).unwrap().0.get_content().as_bytes();
        assert!(out.len() == want.n, "a literal of the line was not (fully) re-indented");
        let p: usize = kani::any();
        kani::assume(p < want.n);
        assert!(out[p] == want.b[p], "re-indented literal differs from the reference");
        k += 1;
    }
    cover!(changed, "rewritten");
    std::mem::forget(ft);
    std::mem::forget(line);
}
str_harness! { fn c12_m5_two_literals_one_line_soft() unwind(20) { m5_body(false, 2, 4) } }
str_harness! { fn c12_m5_two_literals_one_line_hard() unwind(20) { m5_body(true, 1, 1) } }

/// M3: lexer side: an odd run of >= 3 quotes followed by a line break opens a multi-line literal
/// which ends at the first later occurrence of the same run; without one it is Unterminated to
/// the end of input. Real `text_literal` on three quotes + line break (LF or CR, per instance) +
/// `n` symbolic bytes (the opener is concrete: a symbolic quote count makes every
/// `bytes().skip(offset)` of the literal scanner symbolic and exhausts memory).
fn m3_body(n: usize, cr: bool) {
    use pasfmt_core::defaults::lexer::verif_hooks_lexer as lx;
    let mut arr = [0u8; 16];
    arr[0] = b'\'';
    arr[1] = b'\'';
    arr[2] = b'\'';
    arr[3] = if cr { b'\r' } else { b'\n' };
    let mut k = 0;
    while k < n {
        arr[4 + k] = pick(&[b'\'', b'\n', b'a', b' ']);
        k += 1;
    }
    let len = 4 + n;
    #[cfg(kani)]
    let text = unsafe { std::str::from_utf8_unchecked(&arr[..len]) };
    #[cfg(not(kani))]
    let text = std::str::from_utf8(&arr[..len]).unwrap();
    let b = &arr[..len];
    let (end, ty, _) = lx::text_literal(text, 1, false, false, None);
    // reference: first occurrence of three quotes at or after position 3
    let mut found = usize::MAX;
    let mut s = 3;
    while s + 3 <= len {
        if found == usize::MAX && b[s] == b'\'' && b[s + 1] == b'\'' && b[s + 2] == b'\'' {
            found = s;
        }
        s += 1;
    }
    if found != usize::MAX {
        assert!(ty == RawTokenType::TextLiteral(TextLiteralKind::MultiLine) && end == found + 3, "multi-line literal does not end at the first closing run");
    } else {
        assert!(ty == RawTokenType::TextLiteral(TextLiteralKind::Unterminated) && end == len, "unterminated multi-line literal must run to the end of input");
    }
    cover!(found != usize::MAX, "terminated");
    cover!(found == usize::MAX, "unterminated");
}
macro_rules! m3 { ($($name: ident => ($u: expr; $n: expr, $cr: expr)),*) => {$(
    harness! { fn $name() unwind($u) stubs(log::max_level => crate::common::stub_log_max_level_off, std::fmt::format => crate::common::stub_fmt_format) { m3_body($n, $cr) } }
)*}}
m3! { c12_m3_lexer_multiline_lf_n3 => (10; 3, false), c12_m3_lexer_multiline_cr_n4 => (11; 4, true), c12_m3_lexer_multiline_lf_n5 => (12; 5, false),
     c12_m3_lexer_multiline_lf_n7 => (14; 7, false), c12_m3_lexer_multiline_cr_n8 => (15; 8, true) }

#[cfg(kani)]
#[kani::proof]
#[kani::unwind(8)]
#[kani::stub(log::max_level, crate::c12::probe_level)]
pub fn c12_probe_log_stub() {
    assert!(log::max_level() == log::LevelFilter::Error);
}
pub fn probe_level() -> log::LevelFilter { log::LevelFilter::Error }

/// M1a: the real `lines_custom` == reference line splitting: LF, CRLF and a lone CR each end a
/// line (CRLF once), the pieces are returned without their terminators, in order; a trailing
/// terminator does not start another line.
fn m1a_body(n: usize) {
    let mut arr = [0u8; 12];
    let mut k = 0;
    while k < n {
        arr[k] = pick(&[b'a', b'\n', b'\r', b' ']);
        k += 1;
    }
    #[cfg(kani)]
    let text = unsafe { std::str::from_utf8_unchecked(&arr[..n]) };
    #[cfg(not(kani))]
    let text = std::str::from_utf8(&arr[..n]).unwrap();
    let got = ms::lines_custom(text);
    // reference: (start, end) of each line
    let s = &arr[..n];
    let mut starts = [0usize; 13];
    let mut ends = [0usize; 13];
    let mut m = 0;
    let mut cur = 0;
    let mut i = 0;
    while i < n {
        if s[i] == b'\n' || s[i] == b'\r' {
            starts[m] = cur;
            ends[m] = i;
            m += 1;
            if s[i] == b'\r' && i + 1 < n && s[i + 1] == b'\n' {
                i += 1;
            }
            cur = i + 1;
        }
        i += 1;
    }
    if cur < n {
        starts[m] = cur;
        ends[m] = n;
        m += 1;
    }
    assert!(got.len() == m, "number of lines differs from the reference");
    let j: usize = kani::any();
    kani::assume(j < m);
    assert!(got[j].len() == ends[j] - starts[j], "line length differs from the reference");
    assert!(got[j].as_ptr() as usize == s.as_ptr() as usize + starts[j], "line does not start where the reference says");
    cover!(m >= 3, "three_lines");
    std::mem::forget(got);
}
macro_rules! m1a { ($($name: ident => ($u: expr; $n: expr)),*) => {$(
    str_harness! { fn $name() unwind($u) { m1a_body($n) } }
)*}}
m1a! { c12_m1a_lines_custom_len4 => (7; 4), c12_m1a_lines_custom_len5 => (8; 5), c12_m1a_lines_custom_len6 => (9; 6), c12_m1a_lines_custom_len7 => (10; 7) }


// M1c: the same obligation on CONCRETE literals (one per instance) with the target layout
// (indentation / continuation counters, ignored flag) symbolic: std's string iterators are
// affordable for CBMC only when the bytes they walk over are constants. The catalogue covers
// LF / CRLF / CR and mixed terminators, blank, short, over-indented and non-conforming lines,
// tab/space bases, 5-quote delimiters.
macro_rules! m1c { ($($name: ident => ($u: expr; $lit: expr, $h: expr, $iw: expr, $cw: expr, $crlf: expr)),* $(,)?) => {$(
    harness! { fn $name() unwind($u) stubs(std::string::String::push_str => crate::common::stub_push_str, std::string::String::push => crate::common::stub_push, std::string::String::with_capacity => crate::common::stub_string_with_capacity, std::string::String::reserve => crate::common::stub_string_reserve, log::max_level => crate::common::stub_log_max_level_off, core::slice::memchr::memchr => crate::common::stub_memchr, core::slice::memchr::memrchr => crate::common::stub_memrchr, str::repeat => crate::common::stub_str_repeat_bounded) { m1_check($lit, $h, $iw, $cw, $crlf, if stringify!($name).as_bytes()[8] == b'i' { b"!ignored" } else { b"concrete" }) } }
)*}}
m1c! {
    c12_m1c_lf_basic => (24; "\'\'\'\n  ab\n  \'\'\'", false, 2, 4, false),
    c12_m1c_crlf_to_lf => (24; "\'\'\'\r\n  ab\r\n  \'\'\'", false, 2, 4, false),
    c12_m1c_lf_to_crlf_tabs => (24; "\'\'\'\n\tab \n\t\'\'\'", true, 1, 1, true),
    c12_m1c_cr_only => (24; "\'\'\'\r  ab\r  \'\'\'", false, 2, 2, false),
    c12_m1c_cr_then_lf => (30; "\'\'\'\n a\r b\n c\n \'\'\'", false, 2, 2, true),
    c12_m1c_crlf_then_empty_lf => (30; "\'\'\'\r\n a\r\n\n b\n \'\'\'", false, 2, 2, false),
    c12_m1c_short_nonblank_line => (24; "\'\'\'\nx\n    \'\'\'", false, 2, 2, false),
    c12_m1c_short_blank_line => (24; "\'\'\'\n \n  a\n  \'\'\'", false, 2, 2, false),
    c12_m1c_overindented_and_trailing_blanks => (30; "\'\'\'\n    a  \n  \'\'\'", false, 2, 2, false),
    c12_m1c_blank_line_longer_than_base => (24; "\'\'\'\n    \n  a\n  \'\'\'", false, 2, 2, false),
    c12_m1c_nonconforming => (24; "\'\'\'\n a\nb\n \'\'\'", false, 2, 2, false),
    c12_m1c_text_before_closing_quotes => (24; "\'\'\'\n a\n b\'\'\'", false, 2, 2, false),
    c12_m1c_ignored_untouched => (24; "\'\'\'\n  ab\n  \'\'\'", false, 2, 4, false),
    c12_m1c_u3000_base => (30; "\'\'\'\n\u{3000}a\r\u{3000} b\n\u{3000}\'\'\'", false, 2, 2, false),
    c12_m1c_five_quotes => (30; "\'\'\'\'\'\n a\'\'\'\n \'\'\'\'\'", false, 2, 2, false),
}
