//! C03 -- idempotence (component fixpoints only).
use crate::common::*;
use crate::spacing::*;
use crate::{cover, harness, str_harness};
use pasfmt_core::lang::*;
use pasfmt_core::rules::comment_contents::verif_hooks_comments as cc;

fn ascii_ws(b: u8) -> bool {
    b == b' ' || b == b'\t' || b == b'\n' || b == 0x0c || b == b'\r'
}

/// Normal form of a line comment (what `format_line_comment` produces): after `//` or `///` the
/// next byte is absent or ASCII whitespace -- unless the comment is a separator line (>= 10 equal
/// non-alphanumeric characters) -- and the text does not end in ASCII whitespace.
fn lc_normal(c: &[u8]) -> bool {
    let n = c.len();
    if n < 2 || c[0] != b'/' || c[1] != b'/' {
        return false;
    }
    if n > 2 && ascii_ws(c[n - 1]) {
        return false;
    }
    let body = if n > 2 && c[2] == b'/' { 3 } else { 2 };
    if body == n || ascii_ws(c[body]) {
        return true;
    }
    // separator: at least 10 equal non-alphanumeric ASCII characters (alphabet is ASCII here)
    let first = c[body];
    if n - body < 10 || first.is_ascii_alphanumeric() {
        return false;
    }
    let mut k = body;
    while k < n {
        if c[k] != first {
            return false;
        }
        k += 1;
    }
    true
}

/// F1 = F1a + F1b. A second application on the symbolic-length result of the first does not fit
/// in memory, so idempotence is split: (a) the result is in normal form; (b) on normal-form
/// input the rule does not touch the token. (a) and (b) give f(f(x)) == f(x) for |x| and |f(x)|
/// within the lengths covered.
fn f1a_body(n: usize, suf: &'static [u8]) {
    let input = sym_text(b"//", n, &crate::c01_tables::LC_SIGMA, suf);
    let mut t = tok(input, 0, TokenType::Comment(CommentKind::IndividualLine));
    cc::format_line_comment(&mut t);
    assert!(lc_normal(t.get_content().as_bytes()), "result of the line-comment rule is not in normal form");
    cover!(t.get_content().len() != input.len(), "changed_something");
    std::mem::forget(t);
}
fn f1b_body(n: usize, suf: &'static [u8]) {
    let input = sym_text(b" //", n, &crate::c01_tables::LC_SIGMA, suf);
    kani::assume(lc_normal(&input.as_bytes()[1..]));
    let mut t = tok(input, 1, TokenType::Comment(CommentKind::IndividualLine));
    cc::format_line_comment(&mut t);
    // untouched: `set_content` would reset the leading whitespace length
    assert!(pasfmt_core::lang::verif_hooks_lang::token_ws_len(&t) == 1, "normal-form comment was rewritten");
    assert!(bytes_eq(t.get_content().as_bytes(), &input.as_bytes()[1..]));
    cover!(n >= 2 && input.as_bytes()[3] == b' ', "space_after_slashes");
    std::mem::forget(t);
}
macro_rules! f1 { ($body: ident; $($name: ident => ($n: expr, $suf: expr)),*) => {$(
    str_harness! { fn $name() unwind(24) { $body($n, $suf) } }
)*}}
f1! { f1a_body;
    c03_f1a_line_comment_result_normal_len2 => (2, b""),
    c03_f1a_line_comment_result_normal_len3 => (3, b""),
    c03_f1a_line_comment_result_normal_len4 => (4, b""),
    c03_f1a_line_comment_result_normal_len5 => (5, b""),
    c03_f1a_line_comment_result_normal_sep => (2, b"--------")
}
f1! { f1b_body;
    c03_f1b_line_comment_normal_untouched_len2 => (2, b""),
    c03_f1b_line_comment_normal_untouched_len3 => (3, b""),
    c03_f1b_line_comment_normal_untouched_len4 => (4, b""),
    c03_f1b_line_comment_normal_untouched_len5 => (5, b""),
    c03_f1b_line_comment_normal_untouched_len6 => (6, b""),
    c03_f1b_line_comment_normal_untouched_sep => (2, b"--------")
}

/// Reference for the part of a directive that is its *name* (what gets upper-cased): either a
/// switch list `A+,B-,C1` or a word `[A-Za-z][A-Za-z0-9_]*`. Returns None when the text is not
/// a well-formed directive start (then the rule must leave the token alone).
fn ref_directive_name_len(s: &[u8]) -> Option<usize> {
    // states: 0 before, 1 after letter, 2 after +/-, 3 after digit, 4 after comma, 5 in word
    let mut st = 0u8;
    let mut is_switch = false;
    let mut n = 0;
    while n < s.len() {
        let b = s[n];
        let letter = b.is_ascii_alphabetic();
        let digit = b.is_ascii_digit();
        st = match st {
            0 | 4 if letter => 1,
            1 if b == b'+' || b == b'-' => { is_switch = true; 2 }
            2 | 3 if b == b',' => 4,
            1 | 3 if digit => { is_switch = true; 3 }
            1 | 5 if (letter || digit || b == b'_') && !is_switch => 5,
            1 if b == b',' => return None,
            4 | 1 => return None,
            _ => break,
        };
        n += 1;
    }
    Some(n)
}

/// F2 = F2a + F2b (a second application on the merged result of the first does not fit in memory):
/// (a) after the rule, the directive name of the result holds no lower-case letter;
/// (b) a token whose directive name holds no lower-case letter is left untouched.
fn f2a_body(n: usize, opener: &'static [u8]) {
    let input = sym_text(opener, n, &crate::c01_tables::DIR_SIGMA, b"");
    let mut t = tok(input, 0, TokenType::CompilerDirective);
    cc::format_compiler_directive(&mut t);
    let out = t.get_content().as_bytes();
    assert!(out.len() == input.len());
    if let Some(len) = ref_directive_name_len(&out[opener.len()..]) {
        let mut k = 0;
        while k < len {
            assert!(!out[opener.len() + k].is_ascii_lowercase(), "result of the directive rule is not in normal form");
            k += 1;
        }
    }
    cover!(!bytes_eq(out, input.as_bytes()), "changed_something");
    std::mem::forget(t);
}
/// (b) shape: opener, `k` name bytes without lower-case letters, a name terminator (blank or
/// closer), then arbitrary bytes (lower-case allowed: they are outside the name).
fn f2b_body(k: usize, opener: &'static [u8]) {
    let mut v = Vec::with_capacity(12);
    v.push(b' ');
    let mut i = 0;
    while i < opener.len() { v.push(opener[i]); i += 1; }
    let mut i = 0;
    while i < k { v.push(pick(&[b'Z', b'Q', b'1', b'_', b'+', b'-', b','])); i += 1; }
    v.push(pick(&[b' ', b'}', b'*']));
    v.push(pick(&crate::c01_tables::DIR_SIGMA));
    v.push(pick(&crate::c01_tables::DIR_SIGMA));
    let input = leak_str(v);
    let mut t = tok(input, 1, TokenType::CompilerDirective);
    cc::format_compiler_directive(&mut t);
    assert!(pasfmt_core::lang::verif_hooks_lang::token_ws_len(&t) == 1, "normal-form directive was rewritten");
    assert!(bytes_eq(t.get_content().as_bytes(), &input.as_bytes()[1..]));
    cover!(input.as_bytes()[input.len() - 1] == b'a', "lowercase_outside_name");
    std::mem::forget(t);
}
macro_rules! f2 { ($body: ident; $($name: ident => ($n: expr, $op: expr)),*) => {$(
    str_harness! { fn $name() unwind(14) { $body($n, $op) } }
)*}}
f2! { f2a_body;
    c03_f2a_directive_result_normal_len3 => (3, b"{$"),
    c03_f2a_directive_result_normal_len4 => (4, b"{$"),
    c03_f2a_directive_result_normal_len5 => (5, b"{$"),
    c03_f2a_directive_result_normal_parenstar_len3 => (3, b"(*$")
}
f2! { f2b_body;
    c03_f2b_directive_normal_untouched_name1 => (1, b"{$"),
    c03_f2b_directive_normal_untouched_name2 => (2, b"{$"),
    c03_f2b_directive_normal_untouched_name3 => (3, b"{$"),
    c03_f2b_directive_normal_untouched_parenstar_name2 => (2, b"(*$")
}

/// F3: a keyword in any letter case is recognised as the same keyword as its lower-cased form
/// (so lower-casing keeps the kind and a second run sees the same tokens): every entry of the
/// real KEYWORDS table of length `len`, symbolic case mask.
fn f3_body(len: usize) {
    use pasfmt_core::defaults::lexer::verif_hooks_lexer as lx;
    let kws = lx::keywords();
    let mask: u16 = kani::any();
    let mut seen = 0;
    let mut i = 0;
    while i < kws.len() {
        let (word, ty) = kws[i];
        if word.len() == len {
            let wb = word.as_bytes();
            let mut v = Vec::with_capacity(len);
            let mut k = 0;
            while k < len {
                v.push(if mask & (1 << k) != 0 { wb[k].to_ascii_uppercase() } else { wb[k] });
                k += 1;
            }
            let mixed = leak_str(v);
            assert!(lx::get_word_token_type(mixed) == ty, "keyword not recognised case-insensitively");
            assert!(lx::get_word_token_type(word) == ty);
            seen += 1;
        }
        i += 1;
    }
    assert!(seen > 0);
    cover!(mask & 1 != 0, "uppercase_first");
}
macro_rules! f3 { ($($name: ident => ($n: expr)),*) => {$(
    harness! { fn $name() unwind(124) { f3_body($n) } }
)*}}
f3! {
    c03_f3_keywords_any_case_len2 => (2), c03_f3_keywords_any_case_len3 => (3), c03_f3_keywords_any_case_len4 => (4),
    c03_f3_keywords_any_case_len5 => (5), c03_f3_keywords_any_case_len6 => (6), c03_f3_keywords_any_case_len7 => (7),
    c03_f3_keywords_any_case_len8 => (8), c03_f3_keywords_any_case_len9 => (9), c03_f3_keywords_any_case_len10 => (10),
    c03_f3_keywords_any_case_len11 => (11), c03_f3_keywords_any_case_len12 => (12), c03_f3_keywords_any_case_len13 => (13),
    c03_f3_keywords_any_case_len14 => (14)
}

/// F4: the real `TokenSpacing::format` applied to its own output changes nothing.
fn f4_body<const N: usize>() {
    let mut kinds = [TokenType::Identifier; N];
    let mut k = 0;
    while k < N {
        kinds[k] = any_token_type();
        kani::assume(k == N - 1 || kinds[k] != TokenType::Eof);
        k += 1;
    }
    let o = any_orig::<N>();
    let r1 = run_spacing(&kinds, &o);
    let mut o2 = o;
    let mut k = 0;
    while k < N {
        o2[k].3 = r1[k];
        k += 1;
    }
    let r2 = run_spacing(&kinds, &o2);
    let mut k = 0;
    while k < N {
        assert!(r1[k] == r2[k], "token spacing is not idempotent");
        k += 1;
    }
    cover!(r1[1] == 1 && o[1].3 != 1, "first_pass_changed_something");
}
harness! { fn c03_f4_spacing_fixpoint_3kinds() unwind(6) { f4_body::<3>() } }
harness! { fn c03_f4_spacing_fixpoint_4kinds() unwind(7) { f4_body::<4>() } }

/// F6: the blank-line rule is a fixpoint: applying the same solution to its own result yields
/// the same counters (clamp(1,2) of a value already in 1..=2).
harness! {
    fn c03_f6_solution_fixpoint() unwind(5) {
        use pasfmt_core::prelude::OptimisingLineFormatterSettings;
        use pasfmt_core::rules::optimising_line_formatter::verif_hooks_olf as olf_hooks;
        let settings = OptimisingLineFormatterSettings { max_line_length: 120, iteration_max: 10, break_before_begin: false, format_multiline_strings: true };
        let rs = recon_settings(false, false, 2, 4);
        let o = any_orig::<2>();
        let start: (u16, u16) = (any_upto(100), any_upto(100));
        let d: [Option<u16>; 2] = [if kani::any() { Some(0) } else { None }, if kani::any() { Some(any_upto(100)) } else { None }];
        let run = |o: &[(u16, u16, u16, u16); 2]| {
            let tokens = vec![tok("ab", 0, TokenType::Identifier), tok("cd", 0, TokenType::Identifier)];
            let fmt = vec![fd(false, o[0].0, o[0].1, o[0].2, o[0].3), fd(false, o[1].0, o[1].1, o[1].2, o[1].3)];
            let mut ft = FormattedTokens::verif_new(leak_tokens(tokens), fmt);
            let line = LogicalLine::new(None, 0, vec![0, 1], LogicalLineType::Unknown);
            olf_hooks::apply_solution(&settings, &rs, &mut ft, &line, start, &d);
            let f0 = ft.get_formatting_data(0).unwrap();
            let f1 = ft.get_formatting_data(1).unwrap();
            let r = [(f0.newlines_before, f0.indentations_before, f0.continuations_before, f0.spaces_before), (f1.newlines_before, f1.indentations_before, f1.continuations_before, f1.spaces_before)];
            std::mem::forget(ft);
            std::mem::forget(line);
            r
        };
        let r1 = run(&o);
        let r2 = run(&r1);
        assert!(r1 == r2, "re-applying the wrapping to its own result changes the layout");
        cover!(o[0].0 > 2 && d[0].is_some(), "clamped");
    }
}
