//! Independent reference scanner for ONE token of ASCII input (the Delphi lexical rules as
//! documented in the lexer's tests and comments), used as the oracle of the C13 step harnesses.
//! It deliberately shares no code with the implementation: plain byte loops, no tables.
//! Scope: everything except the nested expression syntax of `{$if ...}` / `{$elseif ...}`
//! directives (for those only the structural contract is asserted by the callers).
use pasfmt_core::lang::*;
use ChevronKind as ChK;
use CommentKind as CK;
use NumberLiteralKind as NLK;
use OperatorKind as OK;
use RawTokenType as TT;
use TextLiteralKind as TLK;

pub fn is_ident_start(b: u8) -> bool {
    b.is_ascii_alphabetic() || b == b'_'
}
pub fn is_ident_byte(b: u8) -> bool {
    b.is_ascii_alphanumeric() || b == b'_'
}
fn is_dec(b: u8) -> bool {
    b.is_ascii_digit() || b == b'_'
}
fn is_hex(b: u8) -> bool {
    b.is_ascii_hexdigit() || b == b'_'
}
fn is_bin(b: u8) -> bool {
    b == b'0' || b == b'1' || b == b'_'
}
fn run(s: &[u8], mut i: usize, f: fn(u8) -> bool) -> usize {
    while i < s.len() && f(s[i]) {
        i += 1;
    }
    i
}
fn eq_icase(a: &[u8], b: &[u8]) -> bool {
    if a.len() != b.len() {
        return false;
    }
    let mut i = 0;
    while i < a.len() {
        if a[i].to_ascii_lowercase() != b[i].to_ascii_lowercase() {
            return false;
        }
        i += 1;
    }
    true
}
fn find(s: &[u8], from: usize, pat: &[u8]) -> Option<usize> {
    let mut i = from;
    while i + pat.len() <= s.len() {
        let mut all = true;
        let mut k = 0;
        while k < pat.len() {
            all &= s[i + k] == pat[k];
            k += 1;
        }
        if all {
            return Some(i);
        }
        i += 1;
    }
    None
}
/// end of input minus trailing blanks (bytes <= 0x20; ASCII inputs only)
fn trimmed_end(s: &[u8]) -> usize {
    let mut e = s.len();
    while e > 0 && s[e - 1] <= 0x20 {
        e -= 1;
    }
    e
}

pub fn ref_number(s: &[u8], start: usize) -> usize {
    // digits [ . digits ] [ e [+-] digits ]; a fraction / exponent digit run may not start with '_'
    let mut i = run(s, start, is_dec);
    if i < s.len() && s[i] == b'.' && i + 1 < s.len() && s[i + 1].is_ascii_digit() {
        i = run(s, i + 1, is_dec);
    }
    if i < s.len() && (s[i] == b'e' || s[i] == b'E') {
        i += 1;
        if i < s.len() && (s[i] == b'+' || s[i] == b'-') {
            i += 1;
        }
        if i < s.len() && s[i].is_ascii_digit() {
            i = run(s, i, is_dec);
        }
    }
    i
}

/// Reference for text literals starting at `start` (which is `'` or `#`).
pub fn ref_text(s: &[u8], start: usize) -> (usize, TT) {
    let q = run(s, start, |b| b == b'\'') - start;
    if q >= 3 && q % 2 == 1 && start + q < s.len() && (s[start + q] == b'\n' || s[start + q] == b'\r') {
        let mut pat = [b'\''; 16];
        let _ = &mut pat;
        return match find(s, start + q, &pat[..q]) {
            Some(p) => (p + q, TT::TextLiteral(TLK::MultiLine)),
            None => (s.len(), TT::TextLiteral(TLK::Unterminated)),
        };
    }
    let mut i = start;
    loop {
        // escaped characters
        while i < s.len() && s[i] == b'#' {
            i += 1;
            if i < s.len() && is_dec(s[i]) {
                i = run(s, i, is_dec);
            } else if i < s.len() && s[i] == b'$' {
                let e = run(s, i + 1, is_hex);
                if e == i + 1 {
                    return (i + 1, TT::TextLiteral(TLK::Unterminated));
                }
                i = e;
            } else if i < s.len() && s[i] == b'%' {
                let e = run(s, i + 1, is_bin);
                if e == i + 1 {
                    return (i + 1, TT::TextLiteral(TLK::Unterminated));
                }
                i = e;
            } else {
                return (i, TT::TextLiteral(TLK::Unterminated));
            }
        }
        // quoted part
        if i < s.len() && s[i] == b'\'' {
            i += 1;
            while i < s.len() && s[i] != b'\'' && s[i] != b'\n' && s[i] != b'\r' {
                i += 1;
            }
            if i < s.len() && s[i] == b'\'' {
                i += 1;
            } else {
                return (i, TT::TextLiteral(TLK::Unterminated));
            }
        } else {
            return (i, TT::TextLiteral(TLK::SingleLine));
        }
    }
}

fn has_lf(s: &[u8]) -> bool {
    let mut i = 0;
    while i < s.len() {
        if s[i] == b'\n' {
            return true;
        }
        i += 1;
    }
    false
}

fn block_kind(nl_before: bool, body: &[u8]) -> CK {
    if has_lf(body) {
        CK::MultilineBlock
    } else if nl_before {
        CK::IndividualBlock
    } else {
        CK::InlineBlock
    }
}

fn cond_kind(name: &[u8]) -> Option<ConditionalDirectiveKind> {
    use ConditionalDirectiveKind as C;
    // loop-free on purpose (a table loop would dictate the unwind bound of the whole harness)
    if eq_icase(name, b"if") { return Some(C::If); }
    if eq_icase(name, b"ifdef") { return Some(C::Ifdef); }
    if eq_icase(name, b"ifndef") { return Some(C::Ifndef); }
    if eq_icase(name, b"ifopt") { return Some(C::Ifopt); }
    if eq_icase(name, b"elseif") { return Some(C::Elseif); }
    if eq_icase(name, b"else") { return Some(C::Else); }
    if eq_icase(name, b"ifend") { return Some(C::Ifend); }
    if eq_icase(name, b"endif") { return Some(C::Endif); }
    None
}

pub struct Ctx<'a> {
    /// kind of a word: either a linear scan of the keyword table (independent, but 122 loop
    /// iterations that force a large unwind bound on the whole harness) or, in the step harnesses,
    /// the implementation's own lookup, which is checked against the table separately (K1, K2)
    pub word_kind: Option<fn(&str) -> TT>,
    pub keywords: &'a [(&'static str, TT)],
    pub asm: bool,
    pub is_first: bool,
    pub prev_dot: bool,
}

/// `None` = outside the reference's scope (nested-expression directives).
pub fn ref_token(s: &[u8], ws: usize, c: &Ctx) -> Option<(usize, TT)> {
    let b = s[ws];
    let n = s.len();
    let nl_before = c.is_first || has_lf(&s[..ws]);
    let next = if ws + 1 < n { s[ws + 1] } else { 0 };
    let word = |end: usize| -> TT {
        if c.prev_dot {
            return TT::Identifier;
        }
        let w = &s[ws..end];
        if let Some(f) = c.word_kind {
            return f(unsafe { std::str::from_utf8_unchecked(w) });
        }
        let mut i = 0;
        while i < c.keywords.len() {
            if eq_icase(w, c.keywords[i].0.as_bytes()) {
                return c.keywords[i].1;
            }
            i += 1;
        }
        TT::Identifier
    };
    let block = |open_len: usize, close: &[u8]| -> Option<(usize, TT)> {
        let body = ws + open_len;
        if body < n && s[body] == b'$' {
            let name_end = run(s, body + 1, is_ident_byte);
            let kind = cond_kind(&s[body + 1..name_end]);
            if matches!(kind, Some(ConditionalDirectiveKind::If | ConditionalDirectiveKind::Elseif)) {
                return None;
            }
            let ty = match kind {
                Some(k) => TT::ConditionalDirective(k),
                None => TT::CompilerDirective,
            };
            return Some(match find(s, name_end, close) {
                Some(p) => (p + close.len(), ty),
                None => (trimmed_end(s), ty),
            });
        }
        Some(match find(s, body, close) {
            Some(p) => (p + close.len(), TT::Comment(block_kind(nl_before, &s[body..p + close.len()]))),
            None => (trimmed_end(s), TT::Comment(CK::MultilineBlock)),
        })
    };
    Some(match b {
        b'(' if next == b'*' => return block(2, b"*)"),
        b'(' if next == b'.' => (ws + 2, TT::Op(OK::LBrack)),
        b'(' => (ws + 1, TT::Op(OK::LParen)),
        b'{' => return block(1, b"}"),
        b'/' if next == b'/' => {
            let mut e = ws + 2;
            while e < n && s[e] != b'\n' && s[e] != b'\r' {
                e += 1;
            }
            (e, TT::Comment(if nl_before { CK::IndividualLine } else { CK::InlineLine }))
        }
        b'/' => (ws + 1, TT::Op(OK::Slash)),
        b':' if next == b'=' => (ws + 2, TT::Op(OK::Assign)),
        b':' => (ws + 1, TT::Op(OK::Colon)),
        b'<' if next == b'=' => (ws + 2, TT::Op(OK::LessEqual)),
        b'<' if next == b'>' => (ws + 2, TT::Op(OK::NotEqual)),
        b'<' => (ws + 1, TT::Op(OK::LessThan(ChK::Comp))),
        b'>' if next == b'=' => (ws + 2, TT::Op(OK::GreaterEqual)),
        b'>' => (ws + 1, TT::Op(OK::GreaterThan(ChK::Comp))),
        b'.' if next == b'.' => (ws + 2, TT::Op(OK::DotDot)),
        b'.' if next == b')' => (ws + 2, TT::Op(OK::RBrack)),
        b'.' => (ws + 1, TT::Op(OK::Dot)),
        b'+' => (ws + 1, TT::Op(OK::Plus)),
        b'-' => (ws + 1, TT::Op(OK::Minus)),
        b'*' => (ws + 1, TT::Op(OK::Star)),
        b',' => (ws + 1, TT::Op(OK::Comma)),
        b';' => (ws + 1, TT::Op(OK::Semicolon)),
        b'=' => (ws + 1, TT::Op(OK::Equal(EqKind::Comp))),
        b'^' => (ws + 1, TT::Op(OK::Caret(CaretKind::Deref))),
        b'@' if c.asm => (run(s, ws + 1, |b| is_ident_byte(b) || b == b'@'), TT::Identifier),
        b'@' => (ws + 1, TT::Op(OK::AddressOf)),
        b'[' => (ws + 1, TT::Op(OK::LBrack)),
        b']' => (ws + 1, TT::Op(OK::RBrack)),
        b')' => (ws + 1, TT::Op(OK::RParen)),
        b'\'' | b'#' => ref_text(s, ws),
        b'"' if c.asm => {
            let mut i = ws + 1;
            loop {
                if i >= n || s[i] == b'\n' || s[i] == b'\r' {
                    break (i.min(n), TT::TextLiteral(TLK::Unterminated));
                }
                if s[i] == b'\\' {
                    i += if i + 1 < n { 2 } else { 1 };
                } else if s[i] == b'"' {
                    break (i + 1, TT::TextLiteral(TLK::Asm));
                } else {
                    i += 1;
                }
            }
        }
        b'&' => {
            let i = run(s, ws, |b| b == b'&');
            if i < n && s[i] == b'$' {
                (run(s, i + 1, is_hex), TT::NumberLiteral(NLK::Hex))
            } else if i < n && s[i] == b'%' {
                (run(s, i + 1, is_bin), TT::NumberLiteral(NLK::Binary))
            } else if i < n && s[i].is_ascii_digit() {
                (ref_number(s, i), TT::NumberLiteral(NLK::Decimal))
            } else if i < n && is_ident_start(s[i]) {
                (run(s, i, is_ident_byte), TT::Identifier)
            } else {
                (i, TT::Unknown)
            }
        }
        b'%' => (run(s, ws + 1, is_bin), TT::NumberLiteral(NLK::Binary)),
        b'$' => (run(s, ws + 1, is_hex), TT::NumberLiteral(NLK::Hex)),
        b'0'..=b'9' if c.asm => {
            let e = run(s, ws, is_hex);
            if e < n && (s[e] == b'o' || s[e] == b'O') {
                (e + 1, TT::NumberLiteral(NLK::Octal))
            } else if e < n && (s[e] == b'h' || s[e] == b'H') {
                (e + 1, TT::NumberLiteral(NLK::Hex))
            } else if s[e - 1] == b'b' || s[e - 1] == b'B' {
                (e, TT::NumberLiteral(NLK::Binary))
            } else {
                (e, TT::NumberLiteral(NLK::Decimal))
            }
        }
        b'0'..=b'9' => (ref_number(s, ws), TT::NumberLiteral(NLK::Decimal)),
        b'_' => (run(s, ws, is_ident_byte), TT::Identifier),
        b'a'..=b'z' | b'A'..=b'Z' => {
            let e = run(s, ws, is_ident_byte);
            if c.asm {
                let w = &s[ws..e];
                let first = b.to_ascii_lowercase();
                if (first == b'a' || first == b'e') && eq_icase(w, b"end") {
                    (e, TT::Keyword(KeywordKind::End))
                } else if (first == b'a' || first == b'e') && eq_icase(w, b"asm") {
                    (e, TT::Keyword(KeywordKind::Asm))
                } else {
                    (e, TT::Identifier)
                }
            } else {
                (e, word(e))
            }
        }
        _ => (ws + 1, TT::Unknown),
    })
}
