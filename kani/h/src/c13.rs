//! C13 -- scanning is lossless and follows the lexical rules.
use crate::common::*;
use crate::reflex::*;
use crate::{cover, harness};
use pasfmt_core::defaults::lexer::verif_hooks_lexer as lx;
use pasfmt_core::lang::*;

/// L1: ONE real lexing step (`whitespace_and_token`) from an arbitrary lexer state on the input
/// `lead ++ [b0] ++ n symbolic bytes of sigma`: the first byte of the token is concrete (a
/// symbolic dispatch byte makes CBMC expand the 256-entry function-pointer table into every
/// sub-lexer; D1 below covers the table itself), everything after it is symbolic.
/// Asserts the structural contract K-LEX and agreement with the reference scanner.
pub fn l1_body(lead: &'static [u8], b0: u8, n: usize, sigma: &'static [u8], asm: bool) {
    // a stack array, not a Vec: the concrete first byte must survive CBMC's constant propagation
    // so that the dispatch through the function-pointer table resolves to a single callee
    let mut arr = [0u8; 16];
    let mut len = 0;
    let mut k = 0;
    while k < lead.len() { arr[len] = lead[k]; len += 1; k += 1; }
    arr[len] = b0;
    len += 1;
    let mut k = 0;
    while k < n { arr[len] = pick(sigma); len += 1; k += 1; }
    #[cfg(kani)]
    let text = unsafe { std::str::from_utf8_unchecked(&arr[..len]) };
    #[cfg(not(kani))]
    let text = std::str::from_utf8(&arr[..len]).unwrap();
    let s = text.as_bytes();
    let is_first: bool = kani::any();
    let prev = pick(&[None, Some(RawTokenType::Op(OperatorKind::Dot)), Some(RawTokenType::Identifier), Some(RawTokenType::Keyword(KeywordKind::End))]);
    let r = lx::step(text, is_first, asm, prev);
    let (ws, len, ty, in_asm_after, prev_after, first_after) = r.expect("a token: the input holds a non-blank byte");
    // K-LEX, structural part
    assert!(ws == lead.len(), "leading blanks miscounted");
    // from here on use the concrete value (keeps the reference scanner on one match arm)
    let ws = lead.len();
    assert!(len > ws && len <= s.len(), "token must be non-empty and inside the input");
    assert!(!first_after);
    let comment_or_directive = matches!(ty, RawTokenType::Comment(_) | RawTokenType::CompilerDirective | RawTokenType::ConditionalDirective(_));
    assert!(prev_after == if comment_or_directive { prev } else { Some(ty) });
    // content of a line comment / single-line or unterminated literal never contains a line break
    // (double-quoted asm literals are exempt: a backslash escapes any next byte there, a line break
    // included -- the reference scanner mirrors that; see DESIGN.md 7.2 N3)
    if matches!(ty, RawTokenType::Comment(CommentKind::InlineLine | CommentKind::IndividualLine) | RawTokenType::TextLiteral(TextLiteralKind::Unterminated | TextLiteralKind::SingleLine)) {
        let multi_open = s[ws] == b'\'' && ty == RawTokenType::TextLiteral(TextLiteralKind::Unterminated);
        let asm_dquote = asm && s[ws] == b'"';
        if !multi_open && !asm_dquote {
            assert!(!contains_byte(&s[ws..len], b'\n') && !contains_byte(&s[ws..len], b'\r'));
        }
    }
    // agreement with the reference scanner
    let ctx = Ctx { word_kind: Some(lx::get_word_token_type), keywords: lx::keywords(), asm, is_first, prev_dot: prev == Some(RawTokenType::Op(OperatorKind::Dot)) };
    if let Some((want_end, want_ty)) = ref_token(s, ws, &ctx) {
        assert!(len == want_end, "token boundary differs from the reference scanner");
        assert!(ty == want_ty, "token kind differs from the reference scanner");
        // asm mode switches on the `asm` keyword, off on `end` inside asm
        let want_asm = if asm { !(ty == RawTokenType::Keyword(KeywordKind::End) && s[ws].is_ascii_alphabetic()) && (asm) } else { ty == RawTokenType::Keyword(KeywordKind::Asm) };
        if s[ws].is_ascii_alphabetic() {
            assert!(in_asm_after == want_asm, "asm mode tracking");
        } else {
            assert!(in_asm_after == asm);
        }
    }
    cover!(len == s.len(), "token_reaches_end");
    cover!(len < s.len(), "token_stops_early");
}

macro_rules! l1 { ($($name: ident => ($u: expr; $lead: expr, $b0: expr, $n: expr, $sigma: expr, $asm: expr)),* $(,)?) => {$(
    harness! { fn $name() unwind($u) stubs(std::fmt::format => crate::common::stub_fmt_format, log::max_level => crate::common::stub_log_max_level_off, pasfmt_core::defaults::lexer::find_identifier_end_x86_64 => crate::c13::stub_ident_end_scalar) { l1_body($lead, $b0, $n, $sigma, $asm) } }
)*}}

/// The run-time dispatcher (atomic function pointer + cpuid) is replaced by the scalar routine
/// in the step harnesses; AVX2 == scalar == reference is V1/V2/V3.
pub fn stub_ident_end_scalar(input: &str, offset: usize) -> usize {
    lx::find_identifier_end_generic(input, offset)
}

const S_OPS: &[u8] = b"*.=>)/ a";
const S_NUM: &[u8] = b"09_.eE+-af$";
const S_TXT: &[u8] = b"'#$1a\n%_";
const S_CMT: &[u8] = b"/*)}$ \n\ra{";
const S_DIR: &[u8] = b"ifdeEls }*)n";
const S_WORD: &[u8] = b"aAeEnNdDsSmM_1 .";

l1! {
    c13_l1_lparen_n2 => (6; b"", b'(', 2, S_CMT, false),
    c13_l1_lparen_n3 => (7; b"", b'(', 3, S_CMT, false),
    c13_l1_lparen_n5 => (9; b"", b'(', 5, S_CMT, false),
    c13_l1_lbrace_n1 => (5; b"", b'{', 1, S_CMT, false),
    c13_l1_lbrace_n2 => (6; b"", b'{', 2, S_CMT, false),
    c13_l1_lbrace_n3 => (7; b"", b'{', 3, S_CMT, false),
    c13_l1_lbrace_n5 => (11; b" \n", b'{', 5, S_CMT, false),
    c13_l1_lbrace_directive_n5 => (9; b"", b'{', 5, S_DIR, false),
    c13_l1_slash_n3 => (7; b"", b'/', 3, S_CMT, false),
    c13_l1_slash_n5 => (11; b"\n ", b'/', 5, b"/ \r\na\t", false),
    c13_l1_colon_n2 => (6; b"", b':', 2, S_OPS, false),
    c13_l1_langle_n2 => (7; b" ", b'<', 2, S_OPS, false),
    c13_l1_rangle_n2 => (6; b"", b'>', 2, S_OPS, false),
    c13_l1_dot_n2 => (6; b"", b'.', 2, S_OPS, false),
    c13_l1_simple_ops_n1 => (5; b"", b'+', 1, S_OPS, false),
    c13_l1_quote_n1 => (5; b"", b'\'', 1, S_TXT, false),
    c13_l1_quote_n2 => (6; b"", b'\'', 2, S_TXT, false),
    c13_l1_quote_n3 => (7; b"", b'\'', 3, S_TXT, false),
    c13_l1_quote_n5 => (9; b"", b'\'', 5, S_TXT, false),
    c13_l1_quote_n6 => (10; b"", b'\'', 6, S_TXT, false),
    c13_l1_hash_n2 => (6; b"", b'#', 2, S_TXT, false),
    c13_l1_hash_n4 => (8; b"", b'#', 4, S_TXT, false),
    c13_l1_hash_n6 => (10; b"", b'#', 6, S_TXT, false),
    c13_l1_amp_n3 => (7; b"", b'&', 3, b"&$%1a_. ", false),
    c13_l1_amp_n5 => (9; b"", b'&', 5, b"&$%1a_. ", false),
    c13_l1_percent_n3 => (7; b"", b'%', 3, b"01_2 ", false),
    c13_l1_dollar_n3 => (7; b"", b'$', 3, b"09afFgG_ ", false),
    c13_l1_digit_n3 => (7; b"", b'1', 3, S_NUM, false),
    c13_l1_digit_n5 => (9; b"", b'1', 5, S_NUM, false),
    c13_l1_digit_n6 => (10; b"", b'7', 6, S_NUM, false),
    c13_l1_word_a_n3 => (8; b"", b'a', 3, S_WORD, false),
    c13_l1_word_e_n3 => (8; b"", b'E', 3, S_WORD, false),
    c13_l1_word_a_n5 => (11; b"\t", b'a', 5, S_WORD, false),
    c13_l1_underscore_n3 => (7; b"", b'_', 3, S_WORD, false),
    c13_l1_unknown_n1 => (5; b"", b'!', 1, b"a! ", false),
    c13_l1_asm_word_a_n3 => (7; b"", b'a', 3, S_WORD, true),
    c13_l1_asm_word_e_n3 => (7; b"", b'e', 3, S_WORD, true),
    c13_l1_asm_word_m_n3 => (7; b"", b'm', 3, S_WORD, true),
    c13_l1_asm_at_n3 => (7; b"", b'@', 3, b"@a1_ .", true),
    c13_l1_asm_dquote_n4 => (8; b"", b'"', 4, b"\"\\a\n\r ", true),
    c13_l1_asm_digit_n3 => (7; b"", b'1', 3, b"09afbBhHoO_ g", true),
    c13_l1_asm_digit_n5 => (9; b"", b'0', 5, b"09afbBhHoO_ g", true),
}

/// D1: the 256-entry dispatch tables select, for EVERY first byte, the sub-lexer the rules
/// prescribe (callee identity only; the callee is not executed).
harness! {
    fn c13_d1_dispatch_table_all_bytes() unwind(40) {
        let b: u8 = kani::any();
        let asm: bool = kani::any();
        let got = lx::lexer_fn_id(asm, b);
        assert!(got < lx::SUB_LEXER_NAMES.len());
        let want: &str = match b {
            b'(' => "l_paren", b'{' => "l_brace", b'/' => "slash", b':' => "colon", b'<' => "l_angle", b'>' => "r_angle",
            b'.' => "dot", b'+' => "plus", b'-' => "minus", b'*' => "star", b',' => "comma", b';' => "semicolon",
            b'=' => "equal", b'^' => "caret", b'[' => "l_brack", b']' => "r_brack", b')' => "r_paren",
            b'\'' | b'#' => "text_literal", b'&' => "ampersand", b'%' => "binary_number_literal", b'$' => "hex_number_literal",
            b'_' => "identifier", 0x80..=0xFF => "unicode_identifier",
            b'@' => if asm { "asm_label" } else { "address_of" },
            b'"' => if asm { "asm_text_literal" } else { "unknown" },
            b'0'..=b'9' => if asm { "asm_number_literal" } else { "dec_number_literal" },
            b'a' | b'A' | b'e' | b'E' => if asm { "asm_identifier" } else { "identifier_or_keyword" },
            b'a'..=b'z' | b'A'..=b'Z' => if asm { "identifier" } else { "identifier_or_keyword" },
            _ => "unknown",
        };
        // compare by name, through a symbolic-free lookup of the expected name's index
        let mut want_idx = usize::MAX;
        let mut i = 0;
        while i < lx::SUB_LEXER_NAMES.len() {
            if bytes_eq(lx::SUB_LEXER_NAMES[i].as_bytes(), want.as_bytes()) {
                want_idx = i;
            }
            i += 1;
        }
        assert!(want_idx != usize::MAX);
        assert!(got == want_idx, "dispatch table selects the wrong sub-lexer");
        cover!(asm && b == b'@', "asm_label");
    }
}

/// W1: the real `count_leading_whitespace` == number of leading blank bytes (blank = code
/// points <= U+0020 and U+3000), on fixed shapes mixing ASCII blanks, NUL, DEL, letters, the
/// 3-byte U+3000 and other multi-byte characters. `shape`: `s` = symbolic 1-byte symbol,
/// `I` = U+3000, `e` = U+00E9, `E` = U+3001 (same lead byte as U+3000), `N` = U+00A0 and `P` = U+2028
/// (Unicode white space that is NOT a Delphi blank), `4` = U+1F600.
fn w1_body(shape: &'static [u8]) {
    let mut v = Vec::with_capacity(16);
    let mut k = 0;
    while k < shape.len() {
        match shape[k] {
            b's' => v.push(pick(&[b' ', b'\t', 0u8, b'\n', b'\r', 0x20, 0x21, 0x7f, b'a'])),
            b'I' => v.extend_from_slice("\u{3000}".as_bytes()),
            b'e' => v.extend_from_slice("\u{e9}".as_bytes()),
            b'E' => v.extend_from_slice("\u{3001}".as_bytes()),
            b'N' => v.extend_from_slice("\u{a0}".as_bytes()),
            b'P' => v.extend_from_slice("\u{2028}".as_bytes()),
            _ => v.extend_from_slice("\u{1F600}".as_bytes()),
        }
        k += 1;
    }
    let text = leak_str(v);
    let s = text.as_bytes();
    let got = lx::count_leading_whitespace(text);
    let mut want = 0;
    while want < s.len() {
        let bl = blank_len_at(s, want);
        if bl == 0 {
            break;
        }
        want += bl;
    }
    assert!(got == want, "leading blanks miscounted");
    // Z1: `eof` consumes exactly the trailing blanks
    let (eof_ws, remaining) = lx::eof(text);
    assert!(eof_ws == want && remaining == s.len() - want);
    cover!(got == s.len(), "all_blank");
    cover!(got > 0 && got < s.len(), "some_blank");
}
macro_rules! w1 { ($($name: ident => ($sh: expr)),*) => {$(
    harness! { fn $name() unwind(12) { w1_body($sh) } }
)*}}
w1! {
    c13_w1_blanks_ssss => (b"ssss"),
    c13_w1_blanks_sIs => (b"sIs"),
    c13_w1_blanks_IIs => (b"IIs"),
    c13_w1_blanks_sEs => (b"sEs"),
    c13_w1_blanks_ses => (b"ses"),
    c13_w1_blanks_sI4 => (b"sI4"),
    c13_w1_blanks_sNs => (b"sNs"),
    c13_w1_blanks_IPs => (b"IPs")
}

/// V2: the scalar identifier scan == reference (ASCII identifier bytes, every non-ASCII
/// character except U+3000) on fixed shapes with symbolic ASCII bytes.
fn v2_body(shape: &'static [u8]) {
    let mut v = Vec::with_capacity(16);
    let mut k = 0;
    while k < shape.len() {
        match shape[k] {
            b's' => v.push(pick(&[b'a', b'Z', b'0', b'9', b'_', b' ', b'.', b'@', b'[', b'`', b'{', b'/', b':'])),
            b'I' => v.extend_from_slice("\u{3000}".as_bytes()),
            b'e' => v.extend_from_slice("\u{e9}".as_bytes()),
            b'E' => v.extend_from_slice("\u{3001}".as_bytes()),
            _ => v.extend_from_slice("\u{1F600}".as_bytes()),
        }
        k += 1;
    }
    let text = leak_str(v);
    let s = text.as_bytes();
    let got = lx::find_identifier_end_generic(text, 0);
    let mut want = 0;
    while want < s.len() {
        let b = s[want];
        if b < 0x80 {
            if !is_ident_byte(b) {
                break;
            }
            want += 1;
        } else if blank_len_at(s, want) == 3 {
            break;
        } else {
            want += if b >= 0xF0 { 4 } else if b >= 0xE0 { 3 } else { 2 };
        }
    }
    assert!(got == want, "scalar identifier scan differs from the reference");
    cover!(got == s.len(), "whole_input");
    cover!(got < s.len(), "stopped_early");
}
macro_rules! v2 { ($($name: ident => ($sh: expr)),*) => {$(
    harness! { fn $name() unwind(12) { v2_body($sh) } }
)*}}
v2! {
    c13_v2_scalar_ident_ssss => (b"ssss"),
    c13_v2_scalar_ident_sIs => (b"sIs"),
    c13_v2_scalar_ident_sEes => (b"sEes"),
    c13_v2_scalar_ident_s4s => (b"s4s")
}

/// Kani has no model for `_mm256_testz_si256`; Intel's definition: ZF = ((a AND b) == 0).
pub fn stub_mm256_testz_si256(a: std::arch::x86_64::__m256i, b: std::arch::x86_64::__m256i) -> i32 {
    let a: [u64; 4] = unsafe { std::mem::transmute(a) };
    let b: [u64; 4] = unsafe { std::mem::transmute(b) };
    ((a[0] & b[0]) | (a[1] & b[1]) | (a[2] & b[2]) | (a[3] & b[3]) == 0) as i32
}

/// V1: the AVX2 identifier scan == reference on `len` bytes starting at a concrete `offset`
/// (full 32-byte chunks + scalar tail); `non_ascii` additionally plants U+3000 at a symbolic
/// position (the chunk loop must bail out to the scalar routine and still agree). Memory-safety
/// checks stay ON for this family (the routine is `unsafe`).
fn v1_body(len: usize, offset: usize, non_ascii: bool) {
    let mut v = Vec::with_capacity(len);
    let mut k = 0;
    while k < len {
        let b: u8 = kani::any();
        kani::assume(b < 0x80);
        v.push(b);
        k += 1;
    }
    if non_ascii {
        let p: usize = kani::any();
        kani::assume(p <= len - 3);
        // the scan must start on a character boundary (documented precondition of a `&str` offset)
        kani::assume(p >= offset || p + 3 <= offset);
        v[p] = 0xE3;
        v[p + 1] = 0x80;
        v[p + 2] = 0x80;
    }
    let text = leak_str(v);
    let s = text.as_bytes();
    #[cfg(not(kani))]
    if !is_x86_feature_detected!("avx2") {
        println!("NOTE avx2=false");
        return;
    }
    let got = unsafe { lx::find_identifier_end_avx2(text, offset) };
    let mut want = offset;
    loop {
        if want >= s.len() {
            break;
        }
        let b = s[want];
        if b < 0x80 {
            if !is_ident_byte(b) {
                break;
            }
            want += 1;
        } else if blank_len_at(s, want) == 3 {
            break;
        } else {
            want += if b >= 0xF0 { 4 } else if b >= 0xE0 { 3 } else { 2 };
        }
    }
    assert!(got == want, "AVX2 identifier scan differs from the reference");
    cover!(got >= offset + 32, "crossed_a_chunk");
    cover!(got < s.len(), "stopped_early");
}
macro_rules! v1 { ($($name: ident => ($len: expr, $off: expr, $na: expr)),*) => {$(
    harness! { fn $name() unwind(70) stubs(std::arch::x86_64::_mm256_testz_si256 => crate::c13::stub_mm256_testz_si256) { v1_body($len, $off, $na) } }
)*}}
v1! {
    c13_v1_avx2_eq_ref_len33_off0 => (33, 0, false),
    c13_v1_avx2_eq_ref_len33_off1 => (33, 1, false),
    c13_v1_avx2_eq_ref_len40_off3_u3000 => (40, 3, true),
    c13_v1_avx2_eq_ref_len65_off0 => (65, 0, false),
    c13_v1_avx2_eq_ref_len66_off2_u3000 => (66, 2, true)
}

/// K2: the hashed keyword lookup == linear scan of the real `KEYWORDS` table (ASCII
/// case-insensitive) for EVERY word of `n` letters over the letters that occur in short keywords
/// (so hits and near-misses are both reachable): in particular a non-`Identifier` answer implies
/// a matching entry, and a matching entry is found.
fn k2_body(n: usize) {
    let mut arr = [0u8; 8];
    let mut k = 0;
    while k < n {
        arr[k] = pick(&[b'a', b'A', b'n', b'N', b'd', b'D', b's', b'i', b'I', b'f', b'o', b'r', b't', b'O', b'_', b'1']);
        k += 1;
    }
    let w = unsafe { std::str::from_utf8_unchecked(&arr[..n]) };
    let got = lx::get_word_token_type(w);
    let kws = lx::keywords();
    let mut want = RawTokenType::Identifier;
    let mut i = 0;
    while i < kws.len() {
        let kw = kws[i].0.as_bytes();
        if kw.len() == n {
            let mut eq = true;
            let mut j = 0;
            while j < n {
                eq &= kw[j] == arr[j].to_ascii_lowercase();
                j += 1;
            }
            if eq {
                want = kws[i].1;
            }
        }
        i += 1;
    }
    assert!(got == want, "keyword lookup differs from a linear scan of the keyword table");
    cover!(want != RawTokenType::Identifier, "keyword_hit");
    cover!(want == RawTokenType::Identifier, "identifier");
}
harness! { fn c13_k2_keyword_lookup_eq_scan_len2() unwind(124) { k2_body(2) } }
harness! { fn c13_k2_keyword_lookup_eq_scan_len3() unwind(124) { k2_body(3) } }
harness! { fn c13_k2_keyword_lookup_eq_scan_len4() unwind(124) { k2_body(4) } }

/// Z2: the real `consume_to_eof` (end of an unterminated comment/directive): the token ends
/// where the trailing blanks (<= U+0020, U+3000) begin, on a character boundary (shapes as W1,
/// preceded by `{x`).
fn z2_body(shape: &'static [u8]) {
    let mut v = Vec::with_capacity(20);
    v.push(b'{');
    v.push(b'x');
    let mut k = 0;
    while k < shape.len() {
        match shape[k] {
            b's' => v.push(pick(&[b' ', b'\t', b'\n', b'a', 0x7f])),
            b'I' => v.extend_from_slice("\u{3000}".as_bytes()),
            b'e' => v.extend_from_slice("\u{e9}".as_bytes()),
            _ => v.extend_from_slice("\u{a0}".as_bytes()),
        }
        k += 1;
    }
    let text = leak_str(v);
    let s = text.as_bytes();
    let (end, ty) = lx::consume_to_eof(text, RawTokenType::Comment(CommentKind::MultilineBlock));
    assert!(ty == RawTokenType::Comment(CommentKind::MultilineBlock));
    // reference: strip blanks from the end, character by character
    let mut want = s.len();
    loop {
        if want >= 1 && s[want - 1] <= 0x20 {
            want -= 1;
        } else if want >= 3 && s[want - 3] == 0xE3 && s[want - 2] == 0x80 && s[want - 1] == 0x80 {
            want -= 3;
        } else {
            break;
        }
    }
    assert!(end == want, "unterminated token does not end where its trailing blanks begin");
    assert!(text.is_char_boundary(end));
    cover!(end < s.len(), "trimmed_something");
}
macro_rules! z2 { ($($name: ident => ($sh: expr)),*) => {$(
    harness! { fn $name() unwind(12) { z2_body($sh) } }
)*}}
z2! {
    c13_z2_consume_to_eof_sIs => (b"sIs"),
    c13_z2_consume_to_eof_ssI => (b"ssI"),
    c13_z2_consume_to_eof_sIIs => (b"sIIs"),
    c13_z2_consume_to_eof_sNs => (b"sNs"),
    c13_z2_consume_to_eof_ses => (b"ses")
}
