//! C15 -- cursor tracking. One solver query per (token list, cursor offset): the cursor is
//! concrete (string searches at a symbolic split point do not fit in memory, measured), the
//! layout the formatter produces (counters, line ending) is symbolic.
use crate::common::*;
use crate::rmodel::*;
use crate::{cover, note, recon_harness};
use pasfmt_core::defaults::reconstructor::DelphiLogicalLinesReconstructor;
use pasfmt_core::formatter::Cursor;
use pasfmt_core::lang::*;
use pasfmt_core::traits::LogicalLinesReconstructor;

#[derive(Clone, Copy)]
pub struct Src {
    /// (text incl. leading whitespace, ws_len, raw kind, kind)
    pub toks: [(&'static str, u32, RawTokenType, TokenType); 3],
}

pub const LIST1: Src = Src { toks: [
    ("ab", 0, RawTokenType::Identifier, TokenType::Identifier),
    ("  cd", 2, RawTokenType::Identifier, TokenType::Identifier),
    ("\n", 1, RawTokenType::Eof, TokenType::Eof),
] };
pub const LIST2: Src = Src { toks: [
    ("//x", 0, RawTokenType::Comment(CommentKind::IndividualLine), TokenType::Comment(CommentKind::IndividualLine)),
    ("\n  cd", 3, RawTokenType::Identifier, TokenType::Identifier),
    ("", 0, RawTokenType::Eof, TokenType::Eof),
] };
pub const LIST3: Src = Src { toks: [
    ("{a\n b}", 0, RawTokenType::Comment(CommentKind::MultilineBlock), TokenType::Comment(CommentKind::MultilineBlock)),
    ("\n\n cd", 3, RawTokenType::Identifier, TokenType::Identifier),
    (" \n", 2, RawTokenType::Eof, TokenType::Eof),
] };
pub const LIST4: Src = Src { toks: [
    ("ab", 0, RawTokenType::Identifier, TokenType::Identifier),
    (" '''\n x\n '''", 1, RawTokenType::TextLiteral(TextLiteralKind::MultiLine), TokenType::TextLiteral(TextLiteralKind::MultiLine)),
    ("\n", 1, RawTokenType::Eof, TokenType::Eof),
] };

/// `contract`: assume the stage contracts (K-OLF, K-BRK, K-EOF) on the new layout -- the C15
/// obligations; without it the counters are arbitrary small values (C04: no abort).
pub fn x_body(src: Src, cursor: u32, hard: bool, iw: u8, cw: u8, contract: bool, ignore_b: bool) {
    let s = Settings { crlf: kani::any(), hard, iw, cw };
    let mut cb = any_counters(2, 1);
    cb.ignored = ignore_b;
    let mut ce = Counters { ignored: false, nl: 1, ind: 0, cont: 0, sp: 0 };
    let ca = Counters { ignored: false, nl: 0, ind: 0, cont: 0, sp: 0 };
    if contract {
        kani::assume(cb.nl > 0 || (cb.ind == 0 && cb.cont == 0));
        kani::assume(cb.nl == 0 || cb.sp == 0);
        let a = src.toks[0].3;
        let needs_break = is_singleline_comment(a) || matches!(a, TokenType::Comment(CommentKind::MultilineBlock));
        let b_own_line = matches!(src.toks[1].3, TokenType::TextLiteral(TextLiteralKind::MultiLine));
        kani::assume(!(needs_break || b_own_line) || cb.nl > 0);
    } else {
        ce = any_counters(2, 2);
    }
    let total: usize = src.toks[0].0.len() + src.toks[1].0.len() + src.toks[2].0.len();

    let raw = vec![
        RawToken::new(src.toks[0].0, src.toks[0].1, src.toks[0].2),
        RawToken::new(src.toks[1].0, src.toks[1].1, src.toks[1].2),
        RawToken::new(src.toks[2].0, src.toks[2].1, src.toks[2].2),
    ];
    let recon: &'static DelphiLogicalLinesReconstructor = Box::leak(Box::new(DelphiLogicalLinesReconstructor::new(recon_settings(s.crlf, s.hard, s.iw, s.cw))));
    let cursors: &'static mut [Cursor] = Box::leak(Box::new([Cursor(cursor)]));
    let cursors_ptr = cursors.as_ptr();
    let mut tracker = recon.process_cursors(cursors, &raw);
    let rt = [
        RTok { text: src.toks[0].0, ws_len: src.toks[0].1, kind: src.toks[0].3, c: ca },
        RTok { text: src.toks[1].0, ws_len: src.toks[1].1, kind: src.toks[1].3, c: cb },
        RTok { text: src.toks[2].0, ws_len: src.toks[2].1, kind: src.toks[2].3, c: ce },
    ];
    let tokens = vec![tok(rt[0].text, rt[0].ws_len, rt[0].kind), tok(rt[1].text, rt[1].ws_len, rt[1].kind), tok(rt[2].text, rt[2].ws_len, rt[2].kind)];
    let fmt = vec![fd(ca.ignored, ca.nl, ca.ind, ca.cont, ca.sp), fd(cb.ignored, cb.nl, cb.ind, cb.cont, cb.sp), fd(ce.ignored, ce.nl, ce.ind, ce.cont, ce.sp)];
    let ft = FormattedTokens::verif_new(leak_tokens(tokens), fmt);
    tracker.relocate_cursors(&ft);
    std::mem::forget(tracker);
    // SAFETY: the tracker (the only other user of the cursor slice) is not used any more
    let result = unsafe { (*cursors_ptr).0 } as usize;
    note!("cursor", cursor);
    note!("result", result);

    // ground truth: the real output and where each token landed in it
    let out: &'static mut String = Box::leak(Box::new(String::with_capacity(OUT_CAP)));
    recon.reconstruct(ft, out);
    let out = out.as_bytes();
    let l = layout3(&rt, &s, out);
    assert!(out.len() == l.len);
    note!("out_len", out.len());
    if !contract {
        return;
    }

    assert!(result <= out.len(), "cursor reported outside the output");
    // where was the cursor in the input?
    let c = cursor as usize;
    if c >= total {
        assert!(result == out.len(), "a cursor beyond the end must map to the end of the output");
    } else {
        let mut base = 0usize;
        let mut k = 0;
        while k < 3 {
            let tl = src.toks[k].0.len();
            let ws = src.toks[k].1 as usize;
            // the cursor sticks to the token that ends at it ("inside or at the end of a token")
            if c >= base + ws && c <= base + tl && tl > ws {
                if !(k + 1 < 3 && c == base + tl && false) {
                    assert!(result == l.start[k] + (c - base - ws), "cursor inside an unchanged token moved relative to that token");
                }
                break;
            }
            // in the blanks before token k: only "within the output" is promised; we also ask
            // that it stays in the gap before that token
            if c >= base && c < base + ws {
                assert!(result >= l.ws_start[k].min(l.start[k]) && result <= l.start[k], "cursor in blanks left the gap before the next token");
                break;
            }
            base += tl;
            k += 1;
        }
    }
    cover!(cb.nl == 2, "blank_line_in_new_layout");
    cover!(cb.nl == 0 && !ignore_b, "joined_line");
}

macro_rules! cur { ($($name: ident => ($src: expr, $c: expr, $h: expr, $iw: expr, $cw: expr, $contract: expr, $ign: expr)),* $(,)?) => {$(
    recon_harness! { fn $name() unwind(10) { x_body($src, $c, $h, $iw, $cw, $contract, $ign) } }
)*}}

cur! {
    c15_x_list1_c0 => (LIST1, 0, false, 2, 4, true, false),
    c15_x_list1_c1 => (LIST1, 1, false, 2, 4, true, false),
    c15_x_list1_c2 => (LIST1, 2, false, 2, 4, true, false),
    c15_x_list1_c3 => (LIST1, 3, false, 2, 4, true, false),
    c15_x_list1_c4 => (LIST1, 4, false, 2, 4, true, false),
    c15_x_list1_c5 => (LIST1, 5, true, 1, 2, true, false),
    c15_x_list1_c6 => (LIST1, 6, true, 1, 2, true, false),
    c15_x_list1_c7 => (LIST1, 7, false, 2, 4, true, false),
    c15_x_list1_c9 => (LIST1, 9, false, 2, 4, true, false),
    c15_x_list1_cmax => (LIST1, u32::MAX, false, 2, 4, true, false),
    c15_x_list2_c1 => (LIST2, 1, false, 2, 4, true, false),
    c15_x_list2_c3 => (LIST2, 3, false, 2, 4, true, false),
    c15_x_list2_c4 => (LIST2, 4, false, 2, 4, true, false),
    c15_x_list2_c5 => (LIST2, 5, false, 2, 4, true, false),
    c15_x_list2_c6 => (LIST2, 6, false, 2, 4, true, false),
    c15_x_list2_c7 => (LIST2, 7, false, 2, 4, true, false),
    c15_x_list2_c8 => (LIST2, 8, true, 1, 1, true, false),
    c15_x_list3_c1 => (LIST3, 1, false, 2, 4, true, false),
    c15_x_list3_c3 => (LIST3, 3, false, 2, 4, true, false),
    c15_x_list3_c4 => (LIST3, 4, false, 2, 4, true, false),
    c15_x_list3_c6 => (LIST3, 6, false, 2, 4, true, false),
    c15_x_list3_c7 => (LIST3, 7, false, 2, 4, true, false),
    c15_x_list3_c8 => (LIST3, 8, false, 2, 4, true, false),
    c15_x_list3_c9 => (LIST3, 9, false, 2, 4, true, false),
    c15_x_list3_c11 => (LIST3, 11, false, 2, 4, true, false),
    c15_x_list3_c12 => (LIST3, 12, false, 2, 4, true, false),
    c15_x_list3_c13 => (LIST3, 13, false, 2, 4, true, false),
    c15_x_list4_c2 => (LIST4, 2, false, 2, 4, true, false),
    c15_x_list4_c3 => (LIST4, 3, false, 2, 4, true, false),
    c15_x_list4_c5 => (LIST4, 5, false, 2, 4, true, false),
    c15_x_list4_c8 => (LIST4, 8, false, 2, 4, true, false),
    c15_x_list4_c9 => (LIST4, 9, false, 2, 4, true, false),
    c15_x_list4_c13 => (LIST4, 13, false, 2, 4, true, false),
    c15_x_list4_c14 => (LIST4, 14, false, 2, 4, true, false),
    c15_x_list1_ignored_c3 => (LIST1, 3, false, 2, 4, true, true),
    c15_x_list1_ignored_c5 => (LIST1, 5, false, 2, 4, true, true),
    c15_x_list3_ignored_c8 => (LIST3, 8, false, 2, 4, true, true),
}
