//! C15 -- cursor tracking. One solver query per (token list, cursor offset): the cursor is
//! concrete (string searches at a symbolic split point do not fit in memory, measured), the
//! layout the formatter produces (counters, line ending) is symbolic.
use crate::common::*;
use crate::rmodel::*;
use crate::{cover, note, cursor_harness};
use pasfmt_core::defaults::reconstructor::DelphiLogicalLinesReconstructor;
use pasfmt_core::formatter::Cursor;
use pasfmt_core::lang::*;
use pasfmt_core::traits::LogicalLinesReconstructor;

#[derive(Clone, Copy)]
pub struct Src {
    /// (text incl. leading whitespace, ws_len, raw kind, kind)
    pub toks: [(&'static str, u32, RawTokenType, TokenType); 3],
}

/// Token texts are prefixes of constants that carry one more byte: a cursor at the very end of a
/// multi-line token makes the code slice `&content[len..]`, and CBMC loses constant propagation on a
/// one-past-the-end pointer of a string constant (measured: 47 s of symbolic execution against
/// 0.3 s, and out of memory in the full harness). With the pad the empty tail still points into
/// the object. The pad byte is never part of any `str` handed to the code.
pub const fn pad(s: &'static str) -> &'static str {
    unsafe { std::str::from_utf8_unchecked(std::slice::from_raw_parts(s.as_ptr(), s.len() - 1)) }
}

pub const LIST1: Src = Src { toks: [
    (pad("ab\0"), 0, RawTokenType::Identifier, TokenType::Identifier),
    (pad("  cd\0"), 2, RawTokenType::Identifier, TokenType::Identifier),
    (pad("\n\0"), 1, RawTokenType::Eof, TokenType::Eof),
] };
pub const LIST2: Src = Src { toks: [
    (pad("//x\0"), 0, RawTokenType::Comment(CommentKind::IndividualLine), TokenType::Comment(CommentKind::IndividualLine)),
    (pad("\n  cd\0"), 3, RawTokenType::Identifier, TokenType::Identifier),
    (pad("\0"), 0, RawTokenType::Eof, TokenType::Eof),
] };
pub const LIST3: Src = Src { toks: [
    (pad("{a\n b}\0"), 0, RawTokenType::Comment(CommentKind::MultilineBlock), TokenType::Comment(CommentKind::MultilineBlock)),
    (pad("\n\n cd\0"), 3, RawTokenType::Identifier, TokenType::Identifier),
    (pad(" \n\0"), 2, RawTokenType::Eof, TokenType::Eof),
] };
pub const LIST4: Src = Src { toks: [
    (pad("ab\0"), 0, RawTokenType::Identifier, TokenType::Identifier),
    (pad(" '''\n x\n '''\0"), 1, RawTokenType::TextLiteral(TextLiteralKind::MultiLine), TokenType::TextLiteral(TextLiteralKind::MultiLine)),
    (pad("\n\0"), 1, RawTokenType::Eof, TokenType::Eof),
] };

/// `contract`: assume the stage contracts (K-OLF, K-BRK, K-EOF) on the new layout -- the C15
/// obligations; without it the counters are arbitrary small values (C04: no abort).
pub fn x_body(src: Src, cursor: u32, hard: bool, iw: u8, cw: u8, contract: bool, ignore_b: bool) {
    let s = Settings { crlf: kani::any(), hard, iw, cw };
    let mut cb = any_counters(2, 1);
    cb.ignored = ignore_b;
    let mut ce = Counters { ignored: false, nl: 1, ind: 0, cont: 0, sp: 0 };
    let ca = Counters { ignored: false, nl: 0, ind: 0, cont: 0, sp: 0 };
    if contract {
        kani::assume(cb.nl > 0 || (cb.ind == 0 && cb.cont == 0));
        kani::assume(cb.nl == 0 || cb.sp == 0);
        let a = src.toks[0].3;
        let needs_break = is_singleline_comment(a) || matches!(a, TokenType::Comment(CommentKind::MultilineBlock));
        let b_own_line = matches!(src.toks[1].3, TokenType::TextLiteral(TextLiteralKind::MultiLine));
        kani::assume(!(needs_break || b_own_line) || cb.nl > 0);
    } else {
        ce = any_counters(2, 2);
    }
    let total: usize = src.toks[0].0.len() + src.toks[1].0.len() + src.toks[2].0.len();

    let raw = vec![
        RawToken::new(src.toks[0].0, src.toks[0].1, src.toks[0].2),
        RawToken::new(src.toks[1].0, src.toks[1].1, src.toks[1].2),
        RawToken::new(src.toks[2].0, src.toks[2].1, src.toks[2].2),
    ];
    let recon: &'static DelphiLogicalLinesReconstructor = Box::leak(Box::new(DelphiLogicalLinesReconstructor::new(recon_settings(s.crlf, s.hard, s.iw, s.cw))));
    let cursors: &'static mut [Cursor] = Box::leak(Box::new([Cursor(cursor)]));
    let cursors_ptr = cursors.as_ptr();
    let mut tracker = recon.process_cursors(cursors, &raw);
    let rt = [
        RTok { text: src.toks[0].0, ws_len: src.toks[0].1, kind: src.toks[0].3, c: ca },
        RTok { text: src.toks[1].0, ws_len: src.toks[1].1, kind: src.toks[1].3, c: cb },
        RTok { text: src.toks[2].0, ws_len: src.toks[2].1, kind: src.toks[2].3, c: ce },
    ];
    let tokens = vec![tok(rt[0].text, rt[0].ws_len, rt[0].kind), tok(rt[1].text, rt[1].ws_len, rt[1].kind), tok(rt[2].text, rt[2].ws_len, rt[2].kind)];
    let fmt = vec![fd(ca.ignored, ca.nl, ca.ind, ca.cont, ca.sp), fd(cb.ignored, cb.nl, cb.ind, cb.cont, cb.sp), fd(ce.ignored, ce.nl, ce.ind, ce.cont, ce.sp)];
    let ft = FormattedTokens::verif_new(leak_tokens(tokens), fmt);
    tracker.relocate_cursors(&ft);
    std::mem::forget(tracker);
    // SAFETY: the tracker (the only other user of the cursor slice) is not used any more
    let result = unsafe { (*cursors_ptr).0 } as usize;
    note!("cursor", cursor);
    note!("result", result);

    // ground truth: the real output and where each token landed in it
    let out: &'static mut String = Box::leak(Box::new(String::with_capacity(OUT_CAP)));
    recon.reconstruct(ft, out);
    let out = out.as_bytes();
    let l = layout3(&rt, &s, out);
    assert!(out.len() == l.len);
    note!("out_len", out.len());
    if !contract {
        return;
    }

    assert!(result <= out.len(), "cursor reported outside the output");
    // where was the cursor in the input?
    let c = cursor as usize;
    if c >= total {
        assert!(result == out.len(), "a cursor beyond the end must map to the end of the output");
    } else {
        let mut base = 0usize;
        let mut k = 0;
        while k < 3 {
            let tl = src.toks[k].0.len();
            let ws = src.toks[k].1 as usize;
            // the cursor sticks to the token that ends at it ("inside or at the end of a token")
            if c >= base + ws && c <= base + tl && tl > ws {
                if !(k + 1 < 3 && c == base + tl && false) {
                    assert!(result == l.start[k] + (c - base - ws), "cursor inside an unchanged token moved relative to that token");
                }
                break;
            }
            // in the blanks before token k: only "within the output" is promised; we also ask
            // that it stays in the gap before that token
            if c >= base && c < base + ws {
                assert!(result >= l.ws_start[k].min(l.start[k]) && result <= l.start[k], "cursor in blanks left the gap before the next token");
                break;
            }
            base += tl;
            k += 1;
        }
    }
    cover!(cb.nl == 2, "blank_line_in_new_layout");
    cover!(cb.nl == 0 && !ignore_b, "joined_line");
}

// ---------------------------------------------------------------------------------------------
// Decomposition: A (attach) and B (re-projection), joined by the reference attach function.
use pasfmt_core::defaults::reconstructor::verif_hooks_reconstructor as rh;
use rh::Pos;

fn count_lf(s: &[u8]) -> usize {
    let mut n = 0;
    let mut i = 0;
    while i < s.len() {
        if s[i] == b'\n' {
            n += 1;
        }
        i += 1;
    }
    n
}

fn is_multiline_kind(k: RawTokenType) -> bool {
    matches!(k, RawTokenType::TextLiteral(TextLiteralKind::MultiLine) | RawTokenType::Comment(CommentKind::MultilineBlock))
}

/// Reference attach (the specification of `process_cursors` for one cursor): the token a cursor
/// belongs to (it sticks to the token that ends at it) and its position kind.
pub fn ref_attach(src: &Src, cursor: u32) -> (usize, Pos) {
    let c = cursor as usize;
    let mut base = 0usize;
    let mut k = 0;
    while k < 3 {
        let text = src.toks[k].0.as_bytes();
        let ws = src.toks[k].1 as usize;
        if c <= base + text.len() {
            let rel = c - base;
            if rel >= ws {
                let p = rel - ws;
                if is_multiline_kind(src.toks[k].2) {
                    let after = &text[ws + p..];
                    let mut rc = 0;
                    while rc < after.len() && after[rc] != b'\n' {
                        rc += 1;
                    }
                    return (k, Pos::MultilineContent { reverse_col: rc as u16, newlines_after_cursor: count_lf(after) as u16 });
                }
                return (k, Pos::Content { offset: p as u32 });
            }
            let before = &text[..rel];
            let after = &text[rel..ws];
            // column: bytes since the last line break, looking back through earlier tokens
            let mut col = 0usize;
            let mut found = false;
            let mut i = before.len();
            while i > 0 {
                if before[i - 1] == b'\n' {
                    found = true;
                    break;
                }
                col += 1;
                i -= 1;
            }
            let mut j = k;
            while !found && j > 0 {
                j -= 1;
                let t = src.toks[j].0.as_bytes();
                let mut i = t.len();
                while i > 0 {
                    if t[i - 1] == b'\n' {
                        found = true;
                        break;
                    }
                    col += 1;
                    i -= 1;
                }
            }
            return (k, Pos::Whitespace { col: col as u16, newlines_after_cursor: count_lf(after) as u16 });
        }
        base += text.len();
        k += 1;
    }
    (3, Pos::Content { offset: 0 })
}

fn raw_tokens(src: &Src) -> [RawToken<'static>; 3] {
    [
        RawToken::new(src.toks[0].0, src.toks[0].1, src.toks[0].2),
        RawToken::new(src.toks[1].0, src.toks[1].1, src.toks[1].2),
        RawToken::new(src.toks[2].0, src.toks[2].1, src.toks[2].2),
    ]
}

/// A: the real `process_cursors` == reference attach, for one concrete cursor offset per
/// instance... or a symbolic cursor in `lo..=hi`.
pub fn a_body(src: Src, lo: u32, hi: u32) {
    // a single offset is passed as a constant (an assumed-equal symbolic value is not a constant
    // for CBMC's symbolic execution and every string loop would be unwound to the bound)
    let cursor: u32 = if lo == hi { lo } else { let c: u32 = kani::any(); kani::assume(c >= lo && c <= hi); c };
    let recon = DelphiLogicalLinesReconstructor::new(recon_settings(false, false, 2, 4));
    let raw = raw_tokens(&src);
    let got = rh::attach(&recon, cursor, &raw);
    let want = ref_attach(&src, cursor);
    note!("cursor", cursor);
    assert!(got.0 == want.0, "cursor attached to the wrong token");
    assert!(got.1 == want.1, "cursor position kind/fields differ from the reference");
    cover!(matches!(want.1, Pos::Whitespace { .. }), "in_whitespace");
    cover!(matches!(want.1, Pos::Content { .. }), "in_content");
    cover!(matches!(want.1, Pos::MultilineContent { .. }), "in_multiline_content");
    std::mem::forget(recon);
}

/// B: the real `relocate_cursors` from the (reference) attach state of a SYMBOLIC cursor, on a
/// symbolic new layout under the stage contracts: result within the output; inside / at the end
/// of a token (texts are unchanged here) => same offset in that token; beyond the end => end;
/// in blanks => stays in the gap before the same token.
pub fn b_body(src: Src, lo: u32, hi: u32, hard: bool, iw: u8, cw: u8, ignore_b: bool, contract: bool) {
    b_body_changed(src, lo, hi, hard, iw, cw, ignore_b, contract, "")
}

/// `new0` (if not empty): the content of token 0 after formatting (a content-changing rule ran
/// between attach and re-projection, e.g. multi-line string re-indentation). Then only "within
/// the output" is promised for cursors attached to that token.
pub fn b_body_changed(src: Src, lo: u32, hi: u32, hard: bool, iw: u8, cw: u8, ignore_b: bool, contract: bool, new0: &'static str) {
    let cursor: u32 = if lo == hi { lo } else { let c: u32 = kani::any(); kani::assume(c >= lo && c <= hi); c };
    let s = Settings { crlf: kani::any(), hard, iw, cw };
    let mut cb = any_counters(2, if contract { 1 } else { 2 });
    cb.ignored = ignore_b;
    let ca = Counters { ignored: false, nl: 0, ind: 0, cont: 0, sp: 0 };
    let mut ce = Counters { ignored: false, nl: 1, ind: 0, cont: 0, sp: 0 };
    if contract {
        kani::assume(cb.nl > 0 || (cb.ind == 0 && cb.cont == 0));
        kani::assume(cb.nl == 0 || cb.sp == 0);
        let a = src.toks[0].3;
        let needs_break = is_singleline_comment(a) || matches!(a, TokenType::Comment(CommentKind::MultilineBlock));
        let b_own_line = matches!(src.toks[1].3, TokenType::TextLiteral(TextLiteralKind::MultiLine) | TokenType::Comment(CommentKind::MultilineBlock | CommentKind::IndividualBlock | CommentKind::IndividualLine));
        kani::assume(!(needs_break || b_own_line) || cb.nl > 0 || ignore_b);
    } else {
        // C04: no stage contract, arbitrary small counters everywhere
        ce = any_counters(2, 2);
    }
    let changed0 = !new0.is_empty();
    let rt = [
        RTok { text: if changed0 { new0 } else { src.toks[0].0 }, ws_len: if changed0 { 0 } else { src.toks[0].1 }, kind: src.toks[0].3, c: ca },
        RTok { text: src.toks[1].0, ws_len: src.toks[1].1, kind: src.toks[1].3, c: cb },
        RTok { text: src.toks[2].0, ws_len: src.toks[2].1, kind: src.toks[2].3, c: ce },
    ];
    let recon = DelphiLogicalLinesReconstructor::new(recon_settings(s.crlf, s.hard, s.iw, s.cw));
    let mut toks = [tok(rt[0].text, rt[0].ws_len, rt[0].kind), tok(rt[1].text, rt[1].ws_len, rt[1].kind), tok(rt[2].text, rt[2].ws_len, rt[2].kind)];
    let fmt = vec![fd(ca.ignored, ca.nl, ca.ind, ca.cont, ca.sp), fd(cb.ignored, cb.nl, cb.ind, cb.cont, cb.sp), fd(ce.ignored, ce.nl, ce.ind, ce.cont, ce.sp)];
    let ft = FormattedTokens::verif_new(&mut toks, fmt);
    let (tok_idx, pos) = ref_attach(&src, cursor);
    let result = rh::relocate(&recon, tok_idx, pos, &ft) as usize;
    note!("cursor", cursor);
    note!("result", result);
    if !contract {
        cover!(true, "returned");
        std::mem::forget(ft);
        std::mem::forget(recon);
        return;
    }
    // ground truth positions: reference layout (== real output by obligation R0, C01/P5)
    let l = layout3(&rt, &s, &[]);
    let out_len = l.len;
    assert!(result <= out_len, "cursor reported outside the output");
    let total: usize = src.toks[0].0.len() + src.toks[1].0.len() + src.toks[2].0.len();
    let c = cursor as usize;
    if c > total {
        assert!(result == out_len, "a cursor beyond the end must map to the end of the output");
    } else {
        let k = tok_idx;
        let mut base = 0;
        let mut j = 0;
        while j < k {
            base += src.toks[j].0.len();
            j += 1;
        }
        let ws = src.toks[k].1 as usize;
        if k == 0 && changed0 {
            // text changed: the cursor must stay inside that token's new text
            assert!(result >= l.start[0] && result <= l.start[0] + new0.len(), "cursor of a rewritten token left that token");
        } else if c >= base + ws {
            assert!(result == l.start[k] + (c - base - ws), "cursor inside an unchanged token moved relative to that token");
        } else {
            assert!(result >= l.ws_start[k] && result <= l.start[k], "cursor in blanks left the gap before its token");
        }
    }
    cover!(cb.nl == 2 && !ignore_b, "blank_line_in_new_layout");
    cover!(matches!(pos, Pos::Whitespace { .. }), "in_whitespace");
    cover!(true, "checked");
    std::mem::forget(ft);
    std::mem::forget(recon);
}

macro_rules! att { ($($name: ident => ($src: expr, $lo: expr, $hi: expr)),* $(,)?) => {$(
    cursor_harness! { fn $name() unwind(20) { a_body($src, $lo, $hi) } }
)*}}
att! {
    c15_a_attach_list1_c0 => (LIST1, 0, 0),
    c15_a_attach_list1_c1 => (LIST1, 1, 1),
    c15_a_attach_list1_c2 => (LIST1, 2, 2),
    c15_a_attach_list1_c3 => (LIST1, 3, 3),
    c15_a_attach_list1_c4 => (LIST1, 4, 4),
    c15_a_attach_list1_c5 => (LIST1, 5, 5),
    c15_a_attach_list1_c6 => (LIST1, 6, 6),
    c15_a_attach_list1_c7 => (LIST1, 7, 7),
    c15_a_attach_list1_c8 => (LIST1, 8, 8),
    c15_a_attach_list2_c0 => (LIST2, 0, 0),
    c15_a_attach_list2_c1 => (LIST2, 1, 1),
    c15_a_attach_list2_c2 => (LIST2, 2, 2),
    c15_a_attach_list2_c3 => (LIST2, 3, 3),
    c15_a_attach_list2_c4 => (LIST2, 4, 4),
    c15_a_attach_list2_c5 => (LIST2, 5, 5),
    c15_a_attach_list2_c6 => (LIST2, 6, 6),
    c15_a_attach_list2_c7 => (LIST2, 7, 7),
    c15_a_attach_list2_c8 => (LIST2, 8, 8),
    c15_a_attach_list2_c9 => (LIST2, 9, 9),
    c15_a_attach_list3_c0 => (LIST3, 0, 0),
    c15_a_attach_list3_c1 => (LIST3, 1, 1),
    c15_a_attach_list3_c2 => (LIST3, 2, 2),
    c15_a_attach_list3_c3 => (LIST3, 3, 3),
    c15_a_attach_list3_c4 => (LIST3, 4, 4),
    c15_a_attach_list3_c5 => (LIST3, 5, 5),
    c15_a_attach_list3_c6 => (LIST3, 6, 6),
    c15_a_attach_list3_c7 => (LIST3, 7, 7),
    c15_a_attach_list3_c8 => (LIST3, 8, 8),
    c15_a_attach_list3_c9 => (LIST3, 9, 9),
    c15_a_attach_list3_c10 => (LIST3, 10, 10),
    c15_a_attach_list3_c11 => (LIST3, 11, 11),
    c15_a_attach_list3_c12 => (LIST3, 12, 12),
    c15_a_attach_list3_c13 => (LIST3, 13, 13),
    c15_a_attach_list3_c14 => (LIST3, 14, 14),
    c15_a_attach_list3_c15 => (LIST3, 15, 15),
    c15_a_attach_list4_c0 => (LIST4, 0, 0),
    c15_a_attach_list4_c1 => (LIST4, 1, 1),
    c15_a_attach_list4_c2 => (LIST4, 2, 2),
    c15_a_attach_list4_c3 => (LIST4, 3, 3),
    c15_a_attach_list4_c4 => (LIST4, 4, 4),
    c15_a_attach_list4_c5 => (LIST4, 5, 5),
    c15_a_attach_list4_c6 => (LIST4, 6, 6),
    c15_a_attach_list4_c7 => (LIST4, 7, 7),
    c15_a_attach_list4_c8 => (LIST4, 8, 8),
    c15_a_attach_list4_c9 => (LIST4, 9, 9),
    c15_a_attach_list4_c10 => (LIST4, 10, 10),
    c15_a_attach_list4_c11 => (LIST4, 11, 11),
    c15_a_attach_list4_c12 => (LIST4, 12, 12),
    c15_a_attach_list4_c13 => (LIST4, 13, 13),
    c15_a_attach_list4_c14 => (LIST4, 14, 14),
    c15_a_attach_list4_c15 => (LIST4, 15, 15),
    c15_a_attach_list4_c16 => (LIST4, 16, 16),
    c15_a_attach_list4_c17 => (LIST4, 17, 17),
    c15_a_attach_list1_cmax => (LIST1, u32::MAX, u32::MAX),
}
macro_rules! rel { ($($name: ident => ($src: expr, $lo: expr, $hi: expr, $h: expr, $iw: expr, $cw: expr, $ign: expr, $contract: expr)),* $(,)?) => {$(
    cursor_harness! { fn $name() unwind(20) { b_body($src, $lo, $hi, $h, $iw, $cw, $ign, $contract) } }
)*}}
rel! {
    c15_b_relocate_list1_c0 => (LIST1, 0, 0, false, 2, 4, false, true),
    c15_b_relocate_list1_c1 => (LIST1, 1, 1, false, 2, 4, false, true),
    c15_b_relocate_list1_c2 => (LIST1, 2, 2, true, 1, 1, false, true),
    c15_b_relocate_list1_c3 => (LIST1, 3, 3, false, 2, 4, false, true),
    c15_b_relocate_list1_c4 => (LIST1, 4, 4, false, 2, 4, false, true),
    c15_b_relocate_list1_c5 => (LIST1, 5, 5, true, 1, 1, false, true),
    c15_b_relocate_list1_c6 => (LIST1, 6, 6, false, 2, 4, false, true),
    c15_b_relocate_list1_c7 => (LIST1, 7, 7, false, 2, 4, false, true),
    c15_b_relocate_list1_c8 => (LIST1, 8, 8, true, 1, 1, false, true),
    c15_b_relocate_list2_c0 => (LIST2, 0, 0, false, 2, 4, false, true),
    c15_b_relocate_list2_c1 => (LIST2, 1, 1, false, 2, 4, false, true),
    c15_b_relocate_list2_c2 => (LIST2, 2, 2, true, 1, 1, false, true),
    c15_b_relocate_list2_c3 => (LIST2, 3, 3, false, 2, 4, false, true),
    c15_b_relocate_list2_c4 => (LIST2, 4, 4, false, 2, 4, false, true),
    c15_b_relocate_list2_c5 => (LIST2, 5, 5, true, 1, 1, false, true),
    c15_b_relocate_list2_c6 => (LIST2, 6, 6, false, 2, 4, false, true),
    c15_b_relocate_list2_c7 => (LIST2, 7, 7, false, 2, 4, false, true),
    c15_b_relocate_list2_c8 => (LIST2, 8, 8, true, 1, 1, false, true),
    c15_b_relocate_list2_c9 => (LIST2, 9, 9, false, 2, 4, false, true),
    c15_b_relocate_list3_c0 => (LIST3, 0, 0, false, 2, 4, false, true),
    c15_b_relocate_list3_c1 => (LIST3, 1, 1, false, 2, 4, false, true),
    c15_b_relocate_list3_c2 => (LIST3, 2, 2, true, 1, 1, false, true),
    c15_b_relocate_list3_c3 => (LIST3, 3, 3, false, 2, 4, false, true),
    c15_b_relocate_list3_c4 => (LIST3, 4, 4, false, 2, 4, false, true),
    c15_b_relocate_list3_c5 => (LIST3, 5, 5, true, 1, 1, false, true),
    c15_b_relocate_list3_c6 => (LIST3, 6, 6, false, 2, 4, false, true),
    c15_b_relocate_list3_c7 => (LIST3, 7, 7, false, 2, 4, false, true),
    c15_b_relocate_list3_c8 => (LIST3, 8, 8, true, 1, 1, false, true),
    c15_b_relocate_list3_c9 => (LIST3, 9, 9, false, 2, 4, false, true),
    c15_b_relocate_list3_c10 => (LIST3, 10, 10, false, 2, 4, false, true),
    c15_b_relocate_list3_c11 => (LIST3, 11, 11, true, 1, 1, false, true),
    c15_b_relocate_list3_c12 => (LIST3, 12, 12, false, 2, 4, false, true),
    c15_b_relocate_list3_c13 => (LIST3, 13, 13, false, 2, 4, false, true),
    c15_b_relocate_list3_c14 => (LIST3, 14, 14, true, 1, 1, false, true),
    c15_b_relocate_list3_c15 => (LIST3, 15, 15, false, 2, 4, false, true),
    c15_b_relocate_list4_c0 => (LIST4, 0, 0, false, 2, 4, false, true),
    c15_b_relocate_list4_c1 => (LIST4, 1, 1, false, 2, 4, false, true),
    c15_b_relocate_list4_c2 => (LIST4, 2, 2, true, 1, 1, false, true),
    c15_b_relocate_list4_c3 => (LIST4, 3, 3, false, 2, 4, false, true),
    c15_b_relocate_list4_c4 => (LIST4, 4, 4, false, 2, 4, false, true),
    c15_b_relocate_list4_c5 => (LIST4, 5, 5, true, 1, 1, false, true),
    c15_b_relocate_list4_c6 => (LIST4, 6, 6, false, 2, 4, false, true),
    c15_b_relocate_list4_c7 => (LIST4, 7, 7, false, 2, 4, false, true),
    c15_b_relocate_list4_c8 => (LIST4, 8, 8, true, 1, 1, false, true),
    c15_b_relocate_list4_c9 => (LIST4, 9, 9, false, 2, 4, false, true),
    c15_b_relocate_list4_c10 => (LIST4, 10, 10, false, 2, 4, false, true),
    c15_b_relocate_list4_c11 => (LIST4, 11, 11, true, 1, 1, false, true),
    c15_b_relocate_list4_c12 => (LIST4, 12, 12, false, 2, 4, false, true),
    c15_b_relocate_list4_c13 => (LIST4, 13, 13, false, 2, 4, false, true),
    c15_b_relocate_list4_c14 => (LIST4, 14, 14, true, 1, 1, false, true),
    c15_b_relocate_list4_c15 => (LIST4, 15, 15, false, 2, 4, false, true),
    c15_b_relocate_list4_c16 => (LIST4, 16, 16, false, 2, 4, false, true),
    c15_b_relocate_list4_c17 => (LIST4, 17, 17, true, 1, 1, false, true),
    c15_b_relocate_list1_ignored_c1 => (LIST1, 1, 1, false, 2, 4, true, true),
    c15_b_relocate_list1_ignored_c3 => (LIST1, 3, 3, false, 2, 4, true, true),
    c15_b_relocate_list1_ignored_c5 => (LIST1, 5, 5, false, 2, 4, true, true),
    c15_b_relocate_list1_ignored_c6 => (LIST1, 6, 6, false, 2, 4, true, true),
    c15_b_relocate_list3_ignored_c7 => (LIST3, 7, 7, false, 2, 4, true, true),
    c15_b_relocate_list3_ignored_c8 => (LIST3, 8, 8, false, 2, 4, true, true),
    c15_b_relocate_list3_ignored_c10 => (LIST3, 10, 10, false, 2, 4, true, true),
    c15_b_relocate_list3_ignored_c13 => (LIST3, 13, 13, false, 2, 4, true, true),
    c15_b_relocate_list1_cmax => (LIST1, u32::MAX, u32::MAX, false, 2, 4, false, true),
}

// ---------------------------------------------------------------------------------------------
// Lists of cursors: every cursor is treated on its own, whatever the order of the list (the
// property quantifies over *lists* of offsets; nothing says they are ascending or distinct).

/// A2: `process_cursors` on the list [c0, c1] attaches each cursor exactly as the reference
/// attaches it alone (ascending, descending, equal, one beyond the end).
pub fn a2_body(src: Src, c0: u32, c1: u32) {
    let recon = DelphiLogicalLinesReconstructor::new(recon_settings(false, false, 2, 4));
    let raw = raw_tokens(&src);
    let got = rh::attach2(&recon, c0, c1, &raw);
    let want0 = ref_attach(&src, c0);
    let want1 = ref_attach(&src, c1);
    note!("c0", c0);
    note!("c1", c1);
    assert!(got[0].0 == want0.0 && got[0].1 == want0.1, "first cursor of a list attached differently from the same cursor alone");
    assert!(got[1].0 == want1.0 && got[1].1 == want1.1, "second cursor of a list attached differently from the same cursor alone");
    cover!(c0 > c1, "descending");
    cover!(c0 <= c1, "not_descending");
    std::mem::forget(recon);
}

/// B2: `relocate_cursors` on two attached cursors == the two single-cursor results, on a symbolic
/// new layout (stage contracts as in B).
pub fn b2_body(src: Src, c0: u32, c1: u32, hard: bool, iw: u8, cw: u8) {
    let s = Settings { crlf: kani::any(), hard, iw, cw };
    let cb = any_counters(2, 1);
    let ca = Counters { ignored: false, nl: 0, ind: 0, cont: 0, sp: 0 };
    let ce = Counters { ignored: false, nl: 1, ind: 0, cont: 0, sp: 0 };
    kani::assume(cb.nl > 0 || (cb.ind == 0 && cb.cont == 0));
    kani::assume(cb.nl == 0 || cb.sp == 0);
    let a = src.toks[0].3;
    let needs_break = is_singleline_comment(a) || matches!(a, TokenType::Comment(CommentKind::MultilineBlock));
    let b_own_line = matches!(src.toks[1].3, TokenType::TextLiteral(TextLiteralKind::MultiLine) | TokenType::Comment(CommentKind::MultilineBlock | CommentKind::IndividualBlock | CommentKind::IndividualLine));
    kani::assume(!(needs_break || b_own_line) || cb.nl > 0);
    let recon = DelphiLogicalLinesReconstructor::new(recon_settings(s.crlf, s.hard, s.iw, s.cw));
    let mut toks = [tok(src.toks[0].0, src.toks[0].1, src.toks[0].3), tok(src.toks[1].0, src.toks[1].1, src.toks[1].3), tok(src.toks[2].0, src.toks[2].1, src.toks[2].3)];
    let fmt = vec![fd(ca.ignored, ca.nl, ca.ind, ca.cont, ca.sp), fd(cb.ignored, cb.nl, cb.ind, cb.cont, cb.sp), fd(ce.ignored, ce.nl, ce.ind, ce.cont, ce.sp)];
    let ft = FormattedTokens::verif_new(&mut toks, fmt);
    let at0 = ref_attach(&src, c0);
    let at1 = ref_attach(&src, c1);
    let both = rh::relocate2(&recon, [at0, at1], &ft);
    let one0 = rh::relocate(&recon, at0.0, at0.1, &ft);
    let one1 = rh::relocate(&recon, at1.0, at1.1, &ft);
    note!("c0", c0);
    note!("c1", c1);
    assert!(both[0] == one0, "first cursor of a list re-projected differently from the same cursor alone");
    assert!(both[1] == one1, "second cursor of a list re-projected differently from the same cursor alone");
    cover!(cb.nl == 2, "blank_line_in_new_layout");
    cover!(true, "checked");
    std::mem::forget(ft);
    std::mem::forget(recon);
}

macro_rules! att2 { ($($name: ident => ($src: expr, $c0: expr, $c1: expr)),* $(,)?) => {$(
    cursor_harness! { fn $name() unwind(20) { a2_body($src, $c0, $c1) } }
)*}}
att2! {
    c15_a2_attach_pair_list1_5_1 => (LIST1, 5, 1),
    c15_a2_attach_pair_list1_1_5 => (LIST1, 1, 5),
    c15_a2_attach_pair_list1_3_3 => (LIST1, 3, 3),
    c15_a2_attach_pair_list1_9_2 => (LIST1, 9, 2),
    c15_a2_attach_pair_list1_7_0 => (LIST1, 7, 0),
    c15_a2_attach_pair_list3_8_2 => (LIST3, 8, 2),
    c15_a2_attach_pair_list4_14_1 => (LIST4, 14, 1),
}
macro_rules! rel2 { ($($name: ident => ($src: expr, $c0: expr, $c1: expr, $h: expr, $iw: expr, $cw: expr)),* $(,)?) => {$(
    cursor_harness! { fn $name() unwind(20) { b2_body($src, $c0, $c1, $h, $iw, $cw) } }
)*}}
rel2! {
    c15_b2_relocate_pair_list1_5_1 => (LIST1, 5, 1, false, 2, 4),
    c15_b2_relocate_pair_list1_3_9 => (LIST1, 3, 9, true, 1, 1),
    c15_b2_relocate_pair_list3_8_2 => (LIST3, 8, 2, false, 2, 4),
    c15_b2_relocate_pair_list4_14_1 => (LIST4, 14, 1, false, 2, 4),
}

/// A deeply indented multi-line literal that the formatter re-indents (token 0's text shrinks).
pub const LIST7: Src = Src { toks: [
    (pad("\'\'\'\n      x\n      \'\'\'\0"), 0, RawTokenType::TextLiteral(TextLiteralKind::MultiLine), TokenType::TextLiteral(TextLiteralKind::MultiLine)),
    (pad(";\0"), 0, RawTokenType::Op(OperatorKind::Semicolon), TokenType::Op(OperatorKind::Semicolon)),
    (pad("\n\0"), 1, RawTokenType::Eof, TokenType::Eof),
] };
/// CRLF line ends inside a multi-line token and in the blanks (input with Windows line endings).
pub const LIST8: Src = Src { toks: [
    (pad("{a\r\n b}\0"), 0, RawTokenType::Comment(CommentKind::MultilineBlock), TokenType::Comment(CommentKind::MultilineBlock)),
    (pad("\r\n cd\0"), 3, RawTokenType::Identifier, TokenType::Identifier),
    (pad("\r\n\0"), 2, RawTokenType::Eof, TokenType::Eof),
] };
macro_rules! crlf { ($($an: ident, $bn: ident => ($c: expr)),* $(,)?) => {$(
    cursor_harness! { fn $an() unwind(20) { a_body(LIST8, $c, $c) } }
    cursor_harness! { fn $bn() unwind(20) { b_body(LIST8, $c, $c, false, 2, 4, false, true) } }
)*}}
crlf! {
    c15_a_attach_list8crlf_c1, c15_b_relocate_list8crlf_c1 => (1),
    c15_a_attach_list8crlf_c2, c15_b_relocate_list8crlf_c2 => (2),
    c15_a_attach_list8crlf_c3, c15_b_relocate_list8crlf_c3 => (3),
    c15_a_attach_list8crlf_c4, c15_b_relocate_list8crlf_c4 => (4),
    c15_a_attach_list8crlf_c6, c15_b_relocate_list8crlf_c6 => (6),
    c15_a_attach_list8crlf_c8, c15_b_relocate_list8crlf_c8 => (8),
    c15_a_attach_list8crlf_c9, c15_b_relocate_list8crlf_c9 => (9),
    c15_a_attach_list8crlf_c10, c15_b_relocate_list8crlf_c10 => (10),
    c15_a_attach_list8crlf_c12, c15_b_relocate_list8crlf_c12 => (12),
}
macro_rules! chg { ($($name: ident => ($c: expr)),* $(,)?) => {$(
    cursor_harness! { fn $name() unwind(26) { b_body_changed(LIST7, $c, $c, false, 2, 4, false, true, "\'\'\'\nx\n\'\'\'") } }
)*}}
chg! {
    c15_b_relocate_rewritten_literal_c2 => (2), c15_b_relocate_rewritten_literal_c4 => (4), c15_b_relocate_rewritten_literal_c6 => (6),
    c15_b_relocate_rewritten_literal_c8 => (8), c15_b_relocate_rewritten_literal_c9 => (9), c15_b_relocate_rewritten_literal_c10 => (10),
    c15_b_relocate_rewritten_literal_c12 => (12), c15_b_relocate_rewritten_literal_c14 => (14), c15_b_relocate_rewritten_literal_c17 => (17), c15_b_relocate_rewritten_literal_c21 => (21),
}
