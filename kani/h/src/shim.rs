//! Native stand-in for the `kani` crate, used when the harness crate is built by plain `cargo`
//! (replay of solver counterexamples against the real build, dev and release).
//!
//! `any::<T>()` pops the next recorded value (the byte vectors Kani's concrete playback prints,
//! one per primitive nondeterministic choice, in program order). Only primitive types and `u8`
//! arrays are supported on purpose: that keeps the byte layout identical to Kani's.
#![cfg(not(kani))]

use std::cell::RefCell;
use std::collections::VecDeque;

thread_local! {
    static VALUES: RefCell<VecDeque<Vec<u8>>> = RefCell::new(VecDeque::new());
    static COVERED: RefCell<Vec<&'static str>> = RefCell::new(Vec::new());
}

/// Raised (as a panic payload) when an `assume` does not hold during replay: the recorded
/// values do not describe a path the solver could have taken => replay is inconclusive.
pub struct AssumeFailed(pub &'static str);
/// Raised when the recorded values run out or have the wrong size.
pub struct ReplayMismatch(pub String);

pub fn load(values: Vec<Vec<u8>>) {
    VALUES.with(|v| *v.borrow_mut() = values.into());
    COVERED.with(|c| c.borrow_mut().clear());
}

pub fn remaining() -> usize {
    VALUES.with(|v| v.borrow().len())
}

pub fn covered() -> Vec<&'static str> {
    COVERED.with(|c| c.borrow().clone())
}

thread_local! {
    /// search mode (fallback when Kani's concrete playback is infeasible): the k-th `any()` call
    /// takes candidate number `CHOICES[k]` of its type's candidate list
    static SEARCH: RefCell<Option<SearchState>> = RefCell::new(None);
}

#[derive(Default, Clone)]
pub struct SearchState {
    pub choices: Vec<usize>,
    pub limits: Vec<usize>,
    pub next: usize,
    pub taken: Vec<Vec<u8>>,
}

pub fn search_begin(choices: Vec<usize>) {
    SEARCH.with(|s| *s.borrow_mut() = Some(SearchState { choices, ..Default::default() }));
    COVERED.with(|c| c.borrow_mut().clear());
}

pub fn search_end() -> SearchState {
    SEARCH.with(|s| s.borrow_mut().take().unwrap_or_default())
}

fn candidates(size: usize) -> Vec<Vec<u8>> {
    match size {
        1 => (0..=255u8).map(|b| vec![b]).collect(),
        2 => [0u16, 1, 2, 3, 4, 5, 6, 7, 8, 255, 256, 1000, 65535].iter().map(|v| v.to_le_bytes().to_vec()).collect(),
        4 => (0..=64u32).chain([255, 1000, u32::MAX - 1, u32::MAX]).map(|v| v.to_le_bytes().to_vec()).collect(),
        8 => (0..=64u64).chain([255, 1000, u64::MAX]).map(|v| v.to_le_bytes().to_vec()).collect(),
        n => vec![vec![0; n], vec![1; n], vec![0x20; n], vec![0xff; n]],
    }
}

fn pop(size: usize) -> Vec<u8> {
    let searched = SEARCH.with(|s| {
        let mut s = s.borrow_mut();
        let st = s.as_mut()?;
        let c = candidates(size);
        let k = st.next;
        if k >= st.choices.len() {
            st.choices.push(0);
        }
        if k >= st.limits.len() {
            st.limits.push(c.len());
        } else {
            st.limits[k] = c.len();
        }
        st.next += 1;
        let v = c[st.choices[k].min(c.len() - 1)].clone();
        st.taken.push(v.clone());
        Some(v)
    });
    if let Some(v) = searched {
        return v;
    }
    let v = VALUES.with(|v| v.borrow_mut().pop_front());
    match v {
        Some(v) if v.len() == size => v,
        Some(v) => std::panic::panic_any(ReplayMismatch(format!(
            "recorded value has {} bytes, harness asks for {}",
            v.len(),
            size
        ))),
        None => std::panic::panic_any(ReplayMismatch("recorded values exhausted".into())),
    }
}

pub trait Arbitrary: Sized {
    fn any() -> Self;
}

macro_rules! prim {
    ($($t: ty),*) => {$(
        impl Arbitrary for $t {
            fn any() -> Self {
                let b = pop(std::mem::size_of::<$t>());
                <$t>::from_le_bytes(b.try_into().unwrap())
            }
        }
    )*};
}
prim!(u8, u16, u32, u64, usize, i8, i16, i32, i64, isize);

impl Arbitrary for bool {
    fn any() -> Self {
        let b = pop(1)[0];
        if b > 1 {
            std::panic::panic_any(AssumeFailed("bool byte < 2"));
        }
        b == 1
    }
}

impl Arbitrary for char {
    fn any() -> Self {
        let b = pop(4);
        let v = u32::from_le_bytes(b.try_into().unwrap());
        match char::from_u32(v) {
            Some(c) => c,
            None => std::panic::panic_any(AssumeFailed("valid char")),
        }
    }
}

impl<const N: usize> Arbitrary for [u8; N] {
    fn any() -> Self {
        pop(N).try_into().unwrap()
    }
}

pub fn any<T: Arbitrary>() -> T {
    T::any()
}

pub fn assume(cond: bool) {
    if !cond {
        std::panic::panic_any(AssumeFailed("kani::assume"));
    }
}

pub fn cover_hit(name: &'static str) {
    COVERED.with(|c| c.borrow_mut().push(name));
}

#[macro_export]
macro_rules! shim_cover {
    ($cond: expr, $msg: literal) => {
        if $cond {
            $crate::shim::cover_hit($msg);
        }
    };
}
