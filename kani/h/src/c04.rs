//! C04 -- terminates without aborting (unit level). Besides the harnesses shared with the other
//! properties (every harness checks Rust-level panics, arithmetic overflow and loop bounds), these
//! drop the stage contracts: arbitrary (small) counters, cursors anywhere.
use crate::c15::{b_body, Src, LIST1, LIST2, LIST3, LIST4};
use crate::common::*;
use crate::{cover, cursor_harness};
use pasfmt_core::lang::*;

/// A multi-line token that follows blanks on the same line (cursor inside those blanks).
pub const LIST5: Src = Src { toks: [
    ("ab", 0, RawTokenType::Identifier, TokenType::Identifier),
    ("  {a\n b}", 2, RawTokenType::Comment(CommentKind::MultilineBlock), TokenType::Comment(CommentKind::MultilineBlock)),
    ("\n", 1, RawTokenType::Eof, TokenType::Eof),
] };
/// A multi-line string literal as the first token, deeply indented interior.
pub const LIST6: Src = Src { toks: [
    ("\'\'\'\n  x\n  \'\'\'", 0, RawTokenType::TextLiteral(TextLiteralKind::MultiLine), TokenType::TextLiteral(TextLiteralKind::MultiLine)),
    (";", 0, RawTokenType::Op(OperatorKind::Semicolon), TokenType::Op(OperatorKind::Semicolon)),
    ("\n", 1, RawTokenType::Eof, TokenType::Eof),
] };

// relocate_cursors (from the reference attach state of the given cursor) returns -- no panic, no
// arithmetic overflow, loops bounded -- for ARBITRARY small counters (no stage contract).
macro_rules! nc { ($($name: ident => ($src: expr, $c: expr)),* $(,)?) => {$(
    cursor_harness! { fn $name() unwind(20) { b_body($src, $c, $c, false, 2, 4, false, false) } }
)*}}
nc! {
    c04_cursor_nocontract_list1_c3 => (LIST1, 3),
    c04_cursor_nocontract_list1_c5 => (LIST1, 5),
    c04_cursor_nocontract_list2_c4 => (LIST2, 4),
    c04_cursor_nocontract_list3_c7 => (LIST3, 7),
    c04_cursor_nocontract_list3_c9 => (LIST3, 9),
    c04_cursor_nocontract_list4_c2 => (LIST4, 2),
    c04_cursor_nocontract_list4_c8 => (LIST4, 8),
    c04_cursor_nocontract_list5_c2 => (LIST5, 2),
    c04_cursor_nocontract_list5_c3 => (LIST5, 3),
    c04_cursor_nocontract_list5_c4 => (LIST5, 4),
    c04_cursor_nocontract_list5_c6 => (LIST5, 6),
    c04_cursor_nocontract_list6_c4 => (LIST6, 4),
    c04_cursor_nocontract_list6_c9 => (LIST6, 9),
    c04_cursor_nocontract_list1_cmax => (LIST1, u32::MAX),
}
