#!/usr/bin/env python3
"""Driver for the solver-based checks of pasfmt (see DESIGN.md).

  run.py setup                          build what can be built ahead of time
  run.py check <ID> [--tier quick|thorough]
  run.py replay <path>                  re-run a recorded counterexample natively
  run.py list [<ID>]                    obligations per property

Every obligation is one Kani/CBMC (or SMT) query over the *real* code in /repo's working tree.
Exit 0: every obligation of the tier was discharged (or matched a known finding).
Exit 1: a counterexample was found, replayed natively and is not a known finding
        (prints `VIOLATION property=<id> replay=<path>`).
Exit 2: inconclusive (timeout / out of memory / vacuous harness / counterexample that does not
        replay) -- never reported as success and never as a violation.
"""
import argparse
import concurrent.futures as cf
import hashlib
import json
import os
import random
import re
import shlex
import shutil
import subprocess
import sys
import time

VERIF = os.path.dirname(os.path.abspath(__file__))
REPO = os.environ.get("VERIF_REPO", "/repo")
BUILD = os.path.join(VERIF, ".build")
HCRATE = os.path.join(VERIF, "kani", "h")
EVID = os.path.join(VERIF, "evidence")
CEX = os.path.join(VERIF, "counterexamples")

sys.path.insert(0, VERIF)
sys.path.insert(0, os.path.join(VERIF, "tools"))

ENV = dict(os.environ)
ENV["CARGO_NET_OFFLINE"] = "true"
ENV.pop("RUSTFLAGS", None)


def sh(cmd, **kw):
    return subprocess.run(cmd, shell=isinstance(cmd, str), env=ENV, text=True,
                          stdout=subprocess.PIPE, stderr=subprocess.STDOUT, **kw)


# --------------------------------------------------------------------------------------------
# generation (always from /repo's current source)

def generate():
    import gen_tables
    import gen_registry
    info = {"tables": gen_tables.main(REPO, os.path.join(HCRATE, "src", "gen_tables.rs")),
            "harnesses": len(gen_registry.main(os.path.join(HCRATE, "src")))}
    # keep the harness crate's lock file in step with the repository's
    src, dst = os.path.join(REPO, "Cargo.lock"), os.path.join(HCRATE, "Cargo.lock.repo")
    if not os.path.exists(dst) or open(src).read() != open(dst).read():
        shutil.copy(src, dst)
    return info


def repo_state():
    head = sh(f"git -C {REPO} rev-parse HEAD").stdout.strip()
    diff = sh(f"git -C {REPO} diff HEAD").stdout
    return {"head": head, "dirty": bool(diff.strip()),
            "diff_sha256": hashlib.sha256(diff.encode()).hexdigest()[:16]}


# --------------------------------------------------------------------------------------------
# one Kani job

RE_CHECK = re.compile(r"^Check (\d+): (\S+)\n\t - Status: (\w+)\n\t - Description: \"(.*)\"\n(?:\t - Location: (.*)\n)?",
                      re.M)


def parse_kani_log(text):
    r = {"verdict": None, "failed": [], "covers": {}, "time_s": None, "symex_s": None,
         "steps": None, "vccs": None, "checks_total": None, "oom": False, "unwind_fail": False}
    if "VERIFICATION:- SUCCESSFUL" in text:
        r["verdict"] = "SUCCESSFUL"
    elif "VERIFICATION:- FAILED" in text:
        r["verdict"] = "FAILED"
    for m in RE_CHECK.finditer(text):
        num, name, status, desc, loc = m.groups()
        if ".cover." in name:
            r["covers"][desc.strip('"')] = status
        elif status == "FAILURE":
            r["failed"].append({"check": name, "description": desc, "location": loc})
            if "unwinding assertion" in desc:
                r["unwind_fail"] = True
    m = re.search(r"Verification Time: ([0-9.]+)s", text)
    if m:
        r["time_s"] = float(m.group(1))
    m = re.search(r"Runtime Symex: ([0-9.]+)s", text)
    if m:
        r["symex_s"] = float(m.group(1))
    m = re.search(r"size of program expression: (\d+) steps", text)
    if m:
        r["steps"] = int(m.group(1))
    m = re.search(r"Generated (\d+) VCC\(s\), (\d+) remaining", text)
    if m:
        r["vccs"] = int(m.group(2))
    m = re.search(r"\*\* (\d+) of (\d+) failed", text)
    if m:
        r["checks_total"] = int(m.group(2))
    if "out of memory" in text or "std::bad_alloc" in text or "Out of memory" in text:
        r["oom"] = True
    return r


def kani_cmd(feature, harness, flags, extra=()):
    cmd = ["cargo", "kani", "--features", feature, "--target-dir", os.path.join(BUILD, feature),
           "-Z", "stubbing", "-Z", "unstable-options", "--harness", harness, "--exact"]
    cmd += list(flags) + list(extra)
    return cmd


def run_kani(feature, ob, tag="run", extra=()):
    """Runs one harness under ulimit/timeout; returns parsed result."""
    feature = ob.get("feature", feature)
    os.makedirs(os.path.join(BUILD, "logs"), exist_ok=True)
    harness = ob["harness"]
    log = os.path.join(BUILD, "logs", f"{harness.replace('::', '.')}.{tag}.log")
    mem_kb = int(ob.get("mem_gb", 10) * 1024 * 1024)
    timeout = int(ob.get("timeout", 600))
    cap = int(os.environ.get("VERIF_TIMEOUT_CAP", "0") or 0)
    if cap:
        timeout = min(timeout, cap)
    flags = ob.get("flags", ["--no-memory-safety-checks"])
    cmd = kani_cmd(feature, harness, flags, extra)
    script = (f"ulimit -v {mem_kb}; cd {shlex.quote(HCRATE)} && exec timeout -k 10 {timeout} "
              f"/usr/bin/time -f 'PEAK_KB %M' {' '.join(shlex.quote(c) for c in cmd)}")
    t0 = time.time()
    with open(log, "wb") as f:
        p = subprocess.run(["bash", "-c", script], env=ENV, stdout=f, stderr=subprocess.STDOUT)
    wall = time.time() - t0
    text = open(log, "rb").read().decode("utf-8", "replace")
    r = parse_kani_log(text)
    r["wall_s"] = round(wall, 1)
    r["exit"] = p.returncode
    r["log"] = log
    m = re.search(r"PEAK_KB (\d+)", text)
    r["peak_mb"] = int(m.group(1)) // 1024 if m else None
    if p.returncode == 124 or p.returncode == 137:
        r["status"] = "timeout"
    elif r["oom"] or (r["verdict"] == "FAILED" and not r["failed"] and "CBMC failed" in text):
        r["status"] = "oom" if r["oom"] else "error"
    elif r["verdict"] == "SUCCESSFUL":
        r["status"] = "pass"
    elif r["verdict"] == "FAILED":
        r["status"] = "fail"
    else:
        r["status"] = "error"
    r["text_tail"] = text[-1500:] if r["status"] == "error" else ""
    return r, text


def extract_playback_values(text):
    """Parses the unit tests Kani prints under --concrete-playback=print: one per failing check
    and one per satisfied cover. Returns the value lists of the failing checks only."""
    out = []
    for blk in re.finditer(r"/// Check for `(\w+)`: (.*?)\n(.*?)let concrete_vals: Vec<Vec<u8>> = vec!\[(.*?)\n\s*\];", text, re.S):
        kind, desc, _, body = blk.groups()
        if kind == "cover":
            continue
        vals = []
        for vm in re.finditer(r"vec!\[([0-9,\s]*)\]", body):
            b = vm.group(1).strip()
            vals.append([int(x) for x in b.split(",") if x.strip()] if b else [])
        out.append({"kind": kind, "check": desc.strip(), "values": vals})
    return out


# --------------------------------------------------------------------------------------------
# native replay

def replay_bin(profile):
    d = os.path.join(BUILD, "replay")
    return os.path.join(d, "release" if profile == "release" else "debug", "replay")


def build_replay(features):
    """Builds the harness crate natively (same bodies, `kani` replaced by the shim)."""
    out = {}
    for profile in ("dev", "release"):
        cmd = ["cargo", "build", "--offline", "--bin", "replay", "--features", ",".join(features),
               "--target-dir", os.path.join(BUILD, "replay")]
        if profile == "release":
            cmd.append("--release")
        p = sh(cmd, cwd=HCRATE)
        out[profile] = p.returncode == 0
        if p.returncode != 0:
            sys.stderr.write(p.stdout[-3000:])
    return out


def native_replay(harness, values, profile):
    # (the replay binary is built with every feature a check needs)
    """-> (outcome, detail). outcome: reproduced | passed | inconclusive"""
    arg = ";".join(",".join(str(b) for b in v) for v in values)
    p = subprocess.run([replay_bin(profile), harness.split("::")[-1], arg], env=ENV, text=True,
                       stdout=subprocess.PIPE, stderr=subprocess.STDOUT, timeout=120)
    out = p.stdout
    m = re.search(r"^REPLAY (\w+)(.*)$", out, re.M)
    notes = {}
    for nm in re.finditer(r"^NOTE (\w+)=(.*)$", out, re.M):
        try:
            notes[nm.group(1)] = json.loads(nm.group(2))
        except Exception:
            notes[nm.group(1)] = nm.group(2)
    if not m:
        return "inconclusive", {"output": out[-2000:], "notes": notes}
    return {"FAILED": "reproduced", "PASSED": "passed"}.get(m.group(1), "inconclusive"), \
        {"message": m.group(2).strip(), "notes": notes, "output": out[-2000:]}


# --------------------------------------------------------------------------------------------
# known findings

def load_known():
    p = os.path.join(VERIF, "known_findings.json")
    if not os.path.exists(p):
        return []
    return json.load(open(p)).get("findings", [])


def match_known(known, prop, harness, notes):
    for k in known:
        if k.get("status", "open") != "open" or k["property"] != prop:
            continue
        if harness.split("::")[-1] not in k.get("harnesses", []):
            continue
        try:
            if eval(k["when"], {"__builtins__": {}}, dict(notes)):
                return k
        except Exception:
            continue
    return None


# --------------------------------------------------------------------------------------------
# syntactic contract guards (not solver-decided; a failing guard makes the check UNDECIDED, since
# the compositional argument no longer covers the code, never a VIOLATION)

def guard_k_txt():
    """K-TXT: the only callers of Token::set_content are the three rules C01 encodes."""
    allowed = {"core/src/rules/lowercase_keywords.rs", "core/src/rules/comment_contents.rs",
               "core/src/rules/optimising_line_formatter/multiline_strings.rs"}
    bad = []
    for root in ("core/src", "front-end/src", "orchestrator/src"):
        for dp, _, fs in os.walk(os.path.join(REPO, root)):
            for f in fs:
                if not f.endswith(".rs"):
                    continue
                path = os.path.join(dp, f)
                rel = os.path.relpath(path, REPO)
                text = open(path).read()
                # ignore test modules and the definition itself
                body = text.split("#[cfg(test)]")[0]
                for m in re.finditer(r"\.set_content\(", body):
                    if rel not in allowed:
                        bad.append(f"{rel}:{body[:m.start()].count(chr(10)) + 1}")
    return ("K-TXT", "only the three content rules call Token::set_content", bad)


def guard_no_remover():
    """No TokenRemover is registered by the shipped formatter; the formatting stages are the five C01/C08 encode."""
    text = open(os.path.join(REPO, "front-end/src/lib.rs")).read()
    m = re.search(r"pub fn make_formatter\(.*?\n\}\n", text, re.S)
    body = m.group(0) if m else ""
    bad = []
    if not body:
        bad.append("make_formatter not found")
    if ".token_remover(" in body:
        bad.append("front-end/src/lib.rs: make_formatter registers a token remover")
    stages = re.findall(r"\.(?:file_formatter|line_formatter)\((\w+)", body)
    expected = ["TokenSpacing", "LowercaseKeywords", "CommentFormatter", "FormatterSelector", "OptimisingLineFormatter"]
    if stages != expected:
        bad.append(f"formatting stages are {stages}, the encoding assumes {expected}")
    return ("K-STAGES", "make_formatter registers no token remover and exactly the five encoded formatting stages", bad)


GUARDS = {"C01": [guard_k_txt, guard_no_remover], "C03": [guard_no_remover], "C06": [guard_no_remover],
          "C07": [guard_k_txt], "C08": [guard_no_remover]}


# --------------------------------------------------------------------------------------------
# a property check

def select(obligations, tier):
    if tier == "thorough":
        return list(obligations)
    return [o for o in obligations if o.get("tier", "quick") == "quick"]


def handle_failure(prop, feature, ob, res, known, lines):
    """A harness came back FAILED with failing checks: get values, replay, classify."""
    harness = ob["harness"]
    short = harness.split("::")[-1]
    if res["unwind_fail"]:
        return {"class": "inconclusive", "why": "unwinding assertion failed: the loop bound of this harness is too small for the current source"}
    ob_pb = dict(ob)
    if not ob.get("playback", True):
        # families for which trace generation is known not to fit: go straight to the native search
        ob_pb["timeout"] = 1
    ob_pb["mem_gb"] = max(24, 2 * ob.get("mem_gb", 10))  # trace generation needs more memory
    if ob.get("playback", True):
        ob_pb["timeout"] = min(1200, max(600, int(1.5 * ob.get("timeout", 600))))
        r2, text2 = run_kani(feature, ob_pb, tag="playback",
                             extra=["-Z", "concrete-playback", "--concrete-playback=print"])
    else:
        text2 = ""
    cands = extract_playback_values(text2)
    if not cands:
        # trace generation did not fit (it switches formula slicing off): the solver's verdict stands,
        # look for a concrete witness natively (bounded enumeration of small values, assumptions prune)
        try:
            p = subprocess.run([replay_bin("dev"), "--search", short], env=ENV, text=True,
                               stdout=subprocess.PIPE, stderr=subprocess.STDOUT, timeout=900)
            m = re.search(r"^SEARCH FOUND runs=(\d+) values=(.*)$", p.stdout, re.M)
        except Exception:  # noqa
            m = None
        if m:
            vals = [[int(b) for b in v.split(",") if b != ""] for v in m.group(2).split(";")]
            cands = [{"kind": "native-search", "check": f"found after {m.group(1)} native runs", "values": vals}]
    if not cands:
        return {"class": "inconclusive", "why": "solver reported a failure but no concrete values could be extracted (playback out of memory/time, native search found nothing)",
                "failed": res["failed"]}
    os.makedirs(CEX, exist_ok=True)
    outcomes, detail, values = {}, {}, None
    for cand in cands:
        values = cand["values"]
        outcomes, detail = {}, {}
        for profile in ("dev", "release"):
            try:
                o, d = native_replay(harness, values, profile)
            except Exception as e:  # noqa
                o, d = "inconclusive", {"message": repr(e), "notes": {}}
            outcomes[profile] = o
            detail[profile] = d
        if "reproduced" in outcomes.values():
            break
    notes = detail["dev"].get("notes", {}) or detail["release"].get("notes", {})
    rec = {"property": prop, "harness": harness, "values": values, "failed_checks": res["failed"],
           "replay": outcomes, "messages": {k: v.get("message") for k, v in detail.items()},
           "notes": notes, "repo": repo_state(),
           "how_to_replay": f"python3 run.py replay counterexamples/{short}.json"}
    path = os.path.join(CEX, f"{short}.json")
    reproduced = "reproduced" in outcomes.values()
    if not reproduced:
        rec["class"] = "inconclusive"
        json.dump(rec, open(path, "w"), indent=1)
        return {"class": "inconclusive", "path": path,
                "why": f"counterexample does not reproduce natively ({outcomes}); encoding or stub suspect"}
    k = match_known(known, prop, harness, notes)
    if k is not None:
        rec["class"] = "known"
        rec["known_id"] = k["id"]
        json.dump(rec, open(path, "w"), indent=1)
        return {"class": "known", "known": k, "path": path, "notes": notes}
    rec["class"] = "violation"
    json.dump(rec, open(path, "w"), indent=1)
    return {"class": "violation", "path": path, "notes": notes,
            "messages": rec["messages"]}


def check(prop, tier, seed):
    import obligations as OB
    t0 = time.time()
    spec = OB.PROPERTIES[prop]
    feature = prop.lower()
    gen = generate()
    known = load_known()
    obs = select(spec["obligations"], tier)
    only = os.environ.get("VERIF_ONLY")
    if only:
        # development aid (seeded-change trials): restrict to obligations whose harness matches
        obs = [o for o in spec["obligations"] if re.search(only, o["harness"])]
    rnd = random.Random(seed)
    rnd.shuffle(obs)
    lines = []

    # 1. compile once (all harnesses of the feature), so that the parallel jobs only run CBMC
    features = sorted({o.get("feature", feature) for o in obs})
    for ft in features:
        pre = sh(["cargo", "kani", "--features", ft, "--target-dir", os.path.join(BUILD, ft),
                  "-Z", "stubbing", "-Z", "unstable-options", "--only-codegen"], cwd=HCRATE)
        if pre.returncode != 0:
            print(pre.stdout[-4000:])
            print(f"INCONCLUSIVE property={prop}: harness crate does not compile against /repo's working tree")
            write_evidence(prop, tier, seed, spec, [], t0, gen, violations=0, note="harness crate failed to compile")
            return 2
    rb = build_replay(features)

    smt_results = []
    for s in spec.get("smt", []):
        if tier == "quick" and s.get("tier", "quick") != "quick":
            continue
        if only and not re.search(only, s["module"]):
            continue
        import importlib
        mod = importlib.import_module(s["module"])
        smt_results.append(mod.run(REPO, BUILD, s))

    jobs = int(os.environ.get("VERIF_JOBS", "8"))
    results = {}
    with cf.ThreadPoolExecutor(max_workers=jobs) as ex:
        futs = {ex.submit(run_kani, feature, ob): ob for ob in obs}
        for fut in cf.as_completed(futs):
            ob = futs[fut]
            res, _ = fut.result()
            results[ob["harness"]] = res
            print(f"  [{res['status']:8}] {ob['harness']}  {res.get('time_s')}s peak={res.get('peak_mb')}MB", flush=True)

    # A tool that dies of "out of memory" while its own peak is far below the cap was starved by
    # the host (other jobs), not by the formula: such an obligation is run once more, alone.
    for ob in obs:
        res = results[ob["harness"]]
        cap_mb = ob.get("mem_gb", 10) * 1024
        if res["status"] in ("oom", "error") and (res.get("peak_mb") or 0) < 0.6 * cap_mb:
            res2, _ = run_kani(feature, ob)
            res2["retried"] = True
            results[ob["harness"]] = res2
            print(f"  [{res2['status']:8}] {ob['harness']}  {res2.get('time_s')}s peak={res2.get('peak_mb')}MB (retry after {res['status']} at {res.get('peak_mb')}MB)", flush=True)

    violations, inconclusive, known_hits = [], [], []
    records = []
    for ob in obs:
        res = results[ob["harness"]]
        rec = {"id": ob["id"], "harness": ob["harness"], "what": ob.get("what", ""),
               "bounds": ob.get("bounds", ""), "functions": ob.get("functions", []),
               "status": res["status"], "solver_s": res.get("time_s"), "symex_s": res.get("symex_s"),
               "peak_mb": res.get("peak_mb"), "program_steps": res.get("steps"), "vccs": res.get("vccs"),
               "checks": res.get("checks_total"), "covers": res.get("covers"), "expect": ob.get("expect", "pass")}
        expect = ob.get("expect", "pass")
        if res["status"] in ("timeout", "oom", "error"):
            rec["class"] = "undecided"
            inconclusive.append((ob, f"{res['status']} (limit {ob.get('timeout', 600)}s / {ob.get('mem_gb', 10)}GB) {res.get('text_tail', '')[-300:]}"))
        elif expect == "fail":
            # vacuity twin: the final assert(false) must be reachable
            if res["status"] == "fail" and not res["unwind_fail"]:
                rec["class"] = "witness-ok"
            else:
                rec["class"] = "vacuous"
                inconclusive.append((ob, "reachability twin did not fail: harness is vacuous"))
        elif res["status"] == "pass":
            # vacuity guard: every cover the registry names must be SATISFIED; otherwise at least one
            # of the harness's reachability witnesses (all are placed after the assertions)
            bad = [c for c in ob.get("covers", []) if res["covers"].get(c) != "SATISFIED"]
            some = any(v == "SATISFIED" for v in res["covers"].values())
            if bad or (res["covers"] and not some) or not res["covers"]:
                rec["class"] = "vacuous"
                inconclusive.append((ob, f"reachability witness not satisfied: {bad or res['covers'] or 'harness has no kani::cover'}"))
            else:
                rec["class"] = "discharged"
        else:
            h = handle_failure(prop, feature, ob, res, known, lines)
            rec["class"] = h["class"]
            rec["detail"] = {k: v for k, v in h.items() if k not in ("known",)}
            if h["class"] == "violation":
                violations.append((ob, h))
            elif h["class"] == "known":
                known_hits.append((ob, h))
                # the rest of the obligation, with the known region excluded, must still hold
                ex = ob.get("excluding_known")
                if ex:
                    ob2 = dict(ob)
                    ob2["harness"] = ex
                    r3, _ = run_kani(feature, ob2, tag="excl")
                    rec["excluding_known"] = {"harness": ex, "status": r3["status"], "solver_s": r3.get("time_s")}
                    if r3["status"] == "fail":
                        h2 = handle_failure(prop, feature, ob2, r3, [], lines)
                        if h2["class"] == "violation":
                            violations.append((ob2, h2))
                        else:
                            inconclusive.append((ob2, h2.get("why", "")))
                    elif r3["status"] != "pass":
                        inconclusive.append((ob2, r3["status"]))
                else:
                    inconclusive.append((ob, "known finding matched but no excluding harness is registered"))
            else:
                inconclusive.append((ob, h.get("why", "")))
        records.append(rec)

    for g in GUARDS.get(prop, []):
        name, what, bad = g()
        records.append({"id": "guard:" + name, "harness": "run.py:" + g.__name__, "what": what + " (syntactic guard of a contract the composition assumes; not solver-decided)",
                        "bounds": "source scan of /repo", "functions": [], "status": "pass" if not bad else "inconclusive",
                        "class": "guard-ok" if not bad else "undecided", "detail": bad})
        if bad:
            inconclusive.append(({"harness": "guard:" + name}, f"assumed contract no longer holds in the source: {bad}"))
    for s in smt_results:
        records.append(s)
        if s["class"] == "violation":
            violations.append(({"harness": s["id"]}, {"path": s.get("path", ""), "messages": s.get("detail")}))
        elif s["class"] != "discharged":
            inconclusive.append(({"harness": s["id"]}, s.get("detail", "")))

    for ob, h in known_hits:
        k = h["known"]
        print(f"KNOWN-FINDING: property={prop} {k['id']}: {k['what']} (obligation {ob['harness']})")
    for ob, why in inconclusive:
        print(f"UNDECIDED obligation={ob['harness']}: {why}")
    for ob, h in violations:
        print(f"  violated obligation {ob['harness']}: {h.get('messages')}")
        print(f"VIOLATION property={prop} replay={h['path']}")
    write_evidence(prop, tier, seed, spec, records, t0, gen, violations=len(violations),
                   known=[h["known"]["id"] for _, h in known_hits], replay_built=rb)
    if violations:
        return 1
    if inconclusive:
        return 2
    print(f"OK property={prop} tier={tier}: {sum(1 for r in records if r['class'] in ('discharged', 'witness-ok', 'guard-ok'))} obligations discharged in {time.time() - t0:.0f}s")
    return 0


def write_evidence(prop, tier, seed, spec, records, t0, gen, violations=0, known=(), replay_built=None, note=None):
    # development runs restricted by VERIF_ONLY (seeded-change trials) must not overwrite the evidence
    global EVID
    if os.environ.get("VERIF_ONLY"):
        EVID = os.path.join(BUILD, "evidence_trial")
    os.makedirs(EVID, exist_ok=True)
    discharged = [r for r in records if r.get("class") in ("discharged", "witness-ok", "guard-ok")]
    nontrivial = [r for r in records if r.get("class") == "discharged"]
    funcs = sorted({f for r in records for f in r.get("functions", [])})
    ev = {
        "property_id": prop,
        "tier": tier,
        "seed": seed,
        "level": "model_checking",
        "coverage": {
            "evaluations": max(1, len(records)),
            "distinct_nontrivial": len(nontrivial),
            "rule": "one evaluation = one solver query (a Kani/CBMC harness over the real compiled code, or an SMT query generated "
                    "from the source) deciding an obligation for ALL values of its symbolic inputs within the stated bound; an "
                    "obligation counts as distinct and non-trivial when it was discharged AND all of its reachability witnesses "
                    "(kani::cover) were SATISFIED, i.e. the assertion was reached on a non-empty set of inputs",
            "samples": [{k: r.get(k) for k in ("id", "harness", "what", "bounds", "class", "solver_s", "peak_mb", "covers")}
                        for r in records[:40]],
            # level-specific keys of `model_checking` (bounded model checking has no explicit state graph;
            # the closest measured quantities are reported): states = symbolic program steps CBMC
            # generated for all obligations ("size of program expression"), transitions = verification
            # conditions that remained after simplification and went to the SAT solver,
            # traces_validated_against_impl = counterexample traces replayed natively in this run
            "states": max(1, sum((r.get("program_steps") or 0) for r in records)),
            "transitions": max(1, sum((r.get("vccs") or 0) for r in records)),
            "traces_validated_against_impl": sum(1 for r in records if r.get("class") in ("violation", "known")),
            "obligations": len(records),
            "discharged": len(discharged),
            "undecided": [r["id"] for r in records if r.get("class") in ("undecided", "vacuous", "inconclusive")],
            "known_findings_hit": list(known),
            "functions_encoded": funcs,
            "solver_time_s": round(sum((r.get("solver_s") or 0) for r in records), 1),
            "program_steps_total": sum((r.get("program_steps") or 0) for r in records),
            "vccs_total": sum((r.get("vccs") or 0) for r in records),
            "engine": "Kani 0.68.0 / CBMC 6.11.0 (cadical), unwinding assertions on; z3 4.8.12 + cvc5 1.0 for SMT side encodings",
            "outside_the_claim": spec.get("outside", []),
            "contracts_assumed": spec.get("contracts", []),
            "generated_from": {"repo": repo_state(), "tables": gen.get("tables") if gen else None},
            "exhaustive": False,
            "explanation": spec.get("explanation", ""),
            "all_obligations": records,
        },
        "assumptions": spec.get("assumptions", []) + OB_COMMON_ASSUMPTIONS,
        "wall_s": round(time.time() - t0, 1),
        "violations": violations,
    }
    if note:
        ev["coverage"]["note"] = note
    if replay_built is not None:
        ev["coverage"]["native_replay_built"] = replay_built
    json.dump(ev, open(os.path.join(EVID, f"{prop}.json"), "w"), indent=1)


OB_COMMON_ASSUMPTIONS = [
    "Kani 0.68 / CBMC 6.11 / cadical and rustc's MIR lowering are trusted; Kani models the dev profile (overflow checks on)",
    "bounded: every result holds only for the stated lengths / counts / alphabets; unwinding assertions are on, so a too-small loop bound fails instead of truncating",
    "memory-safety (pointer) checks are off for functional harnesses over safe code unless the obligation says otherwise; Rust-level panics (index, unwrap, overflow) are always checked",
]


def cmd_replay(path):
    rec = json.load(open(path))
    generate()
    feature = rec["harness"].split("::")[0]
    build_replay([feature])
    rc = 0
    for profile in ("dev", "release"):
        o, d = native_replay(rec["harness"], rec["values"], profile)
        print(f"{profile}: {o} {d.get('message', '')}")
        for k, v in d.get("notes", {}).items():
            print(f"   {k} = {v!r}")
        if o == "reproduced":
            rc = 1
    return rc


def cmd_setup():
    generate()
    import obligations as OB
    # warm the native replay build and check that the registry matches the sources
    problems = OB.validate(HCRATE)
    for p in problems:
        print("REGISTRY:", p)
    ok = build_replay([p.lower() for p in OB.PROPERTIES])
    print("replay build:", ok)
    return 0 if all(ok.values()) and not problems else 1


def main():
    ap = argparse.ArgumentParser()
    sub = ap.add_subparsers(dest="cmd", required=True)
    c = sub.add_parser("check")
    c.add_argument("prop")
    c.add_argument("--tier", default=os.environ.get("VERIF_TIER", "quick"))
    r = sub.add_parser("replay")
    r.add_argument("path")
    sub.add_parser("setup")
    l = sub.add_parser("list")
    l.add_argument("prop", nargs="?")
    a = ap.parse_args()
    if a.cmd == "setup":
        sys.exit(cmd_setup())
    if a.cmd == "replay":
        sys.exit(cmd_replay(a.path))
    if a.cmd == "list":
        import obligations as OB
        for pid, spec in OB.PROPERTIES.items():
            if a.prop and a.prop != pid:
                continue
            for o in spec["obligations"]:
                print(pid, o.get("tier", "quick"), o["id"], o["harness"])
        sys.exit(0)
    tier = a.tier if a.tier in ("quick", "thorough") else "quick"
    seed = int(os.environ.get("VERIF_SEED", "0") or 0)
    sys.exit(check(a.prop, tier, seed))


if __name__ == "__main__":
    main()
