#!/bin/bash
cd /verif
for p in "$@"; do
  echo "=== $p $(date +%T)" >> .build/logs/batcht2.out
  VERIF_JOBS=4 VERIF_TIMEOUT_CAP=1000 python3 run.py check $p --tier thorough > .build/logs/thorough_$p.out 2>&1
  echo "exit $? $p $(date +%T)" >> .build/logs/batcht2.out
done
