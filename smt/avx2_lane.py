"""E2: SMT-LIB2 side encoding of the per-lane byte predicate of `find_identifier_end_avx2`.

The translator reads the intrinsic sequence (range_mask / cmpeq / or / movemask) and its byte
constants from the CURRENT source of core/src/defaults/lexer.rs, emits one query over a single
`(_ BitVec 8)` lane, and asks z3 and cvc5 whether some ASCII byte exists for which the lane's
mask bit differs from the reference identifier class [0-9A-Za-z_] (unsat = holds for all 128
ASCII bytes, independent of buffer length), plus whether some byte >= 0x80 escapes the
`any_non_ascii` test. It refuses (inconclusive, never pass) when the source does not have the
expected shape. Validation of the translator: all 256 byte values are pushed through the
encoding (by evaluating the same expression tree in Python) and compared with the source's own
scalar classifier pattern.
"""
import json
import os
import re
import subprocess
import time


def s8(v):
    v &= 0xFF
    return v - 256 if v >= 128 else v


class Shape(Exception):
    pass


def parse(src):
    m = re.search(r"unsafe fn find_identifier_end_avx2\(.*?\n\}\n", src, re.S)
    if not m:
        raise Shape("find_identifier_end_avx2 not found")
    body = m.group(0)
    rm = re.search(r"unsafe fn range_mask\(x: Chunk, range: RangeInclusive<u8>\) -> Chunk \{(.*?)\n    \}", body, re.S)
    if not rm:
        raise Shape("range_mask not found")
    rmb = re.sub(r"\s+", " ", rm.group(1))
    want_rm = ("let lower = _mm256_cmpgt_epi8(_mm256_set1_epi8(*range.end() as i8 + 1), x); "
               "let upper = _mm256_cmpgt_epi8(x, _mm256_set1_epi8(*range.start() as i8 - 1)); "
               "_mm256_and_si256(upper, lower)")
    if want_rm not in rmb:
        raise Shape("range_mask body has an unexpected shape: " + rmb[:200])
    na = re.search(r"unsafe fn any_non_ascii\(chunk: Chunk\) -> bool \{(.*?)\n    \}", body, re.S)
    if not na or "_mm256_testz_si256(_mm256_set1_epi8(i8::MIN), chunk) == 0" not in re.sub(r"\s+", " ", na.group(1)):
        raise Shape("any_non_ascii has an unexpected shape")
    # statement order inside the loop: non-ascii test (break) must come before the mask
    i_na = body.find("if any_non_ascii(chunk)")
    i_mask = body.find("let lower_alpha")
    if i_na < 0 or i_mask < 0 or i_na > i_mask or "break;" not in body[i_na:i_mask]:
        raise Shape("the non-ASCII bail-out does not precede the mask computation")
    env = {}
    for name, lo, hi in re.findall(r"let (\w+) = range_mask\(chunk, b'(.)'\.\.=b'(.)'\);", body):
        env[name] = ("range", ord(lo), ord(hi))
    for name, c in re.findall(r"let (\w+) = _mm256_cmpeq_epi8\(chunk, _mm256_set1_epi8\(b'(.)' as i8\)\);", body):
        env[name] = ("eq", ord(c))

    def expr(text):
        text = text.strip()
        mm = re.match(r"^_mm256_or_si256\((.*)\)$", text, re.S)
        if mm:
            inner = mm.group(1)
            depth, split = 0, None
            for k, ch in enumerate(inner):
                if ch == "(":
                    depth += 1
                elif ch == ")":
                    depth -= 1
                elif ch == "," and depth == 0:
                    split = k
                    break
            if split is None:
                raise Shape("or with one argument")
            return ("or", expr(inner[:split]), expr(inner[split + 1:]))
        if re.match(r"^\w+$", text):
            if text not in env:
                raise Shape("unknown name " + text)
            return env[text]
        raise Shape("unexpected expression " + text[:80])

    for name, rhs in re.findall(r"let (\w+) = (_mm256_or_si256\(.*?\));", body, re.S):
        env[name] = expr(re.sub(r"\s+", " ", rhs))
    mv = re.search(r"_mm256_movemask_epi8\((\w+)\)", body)
    if not mv or mv.group(1) not in env:
        raise Shape("movemask argument not understood")
    if "ident_mask.trailing_ones()" not in body or "ident_mask != -1i32" not in body:
        raise Shape("mask consumption (trailing_ones / != -1) has an unexpected shape")
    return env[mv.group(1)]


def smt(e):
    k = e[0]
    if k == "range":
        lo, hi = s8(e[1] - 1), s8(e[2] + 1)
        return f"(bvand (ite (bvsgt x {bv(lo)}) #xff #x00) (ite (bvsgt {bv(hi)} x) #xff #x00))"
    if k == "eq":
        return f"(ite (= x {bv(e[1])}) #xff #x00)"
    return f"(bvor {smt(e[1])} {smt(e[2])})"


def bv(v):
    return "#x%02x" % (v & 0xFF)


def evaluate(e, x):
    k = e[0]
    if k == "range":
        return 0xFF if (s8(x) > s8(e[1] - 1) and s8(e[2] + 1) > s8(x)) else 0
    if k == "eq":
        return 0xFF if x == e[1] else 0
    return evaluate(e[1], x) | evaluate(e[2], x)


def is_ident(x):
    return (0x30 <= x <= 0x39) or (0x41 <= x <= 0x5A) or (0x61 <= x <= 0x7A) or x == 0x5F


def solve(cmd, text):
    t0 = time.time()
    p = subprocess.run(cmd, input=text, text=True, capture_output=True, timeout=60)
    out = (p.stdout + p.stderr).strip()
    if "(error" in out or "error" in out.lower():
        return "error", out[:300], time.time() - t0
    return out.splitlines()[0] if out else "empty", out[:300], time.time() - t0


def run(repo, build, spec):
    rec = {"id": "V3", "harness": "smt/avx2_lane.py", "what": "per-lane predicate of the AVX2 identifier scan == ASCII identifier class; every non-ASCII lane triggers the bail-out (SMT-LIB2 encoding generated from the source)",
           "bounds": "one 8-bit lane, all 256 values; independent of buffer length", "functions": ["core/src/defaults/lexer.rs: find_identifier_end_avx2 (range_mask, any_non_ascii, mask expression)"],
           "covers": {}, "expect": "pass"}
    src = open(os.path.join(repo, "core/src/defaults/lexer.rs")).read()
    try:
        e = parse(src)
    except Shape as ex:
        rec.update({"class": "undecided", "status": "inconclusive", "detail": "translator refuses: " + str(ex)})
        return rec
    # translator validation on all byte values (Serval-style): encoding vs reference class
    disagreements = [x for x in range(128) if (evaluate(e, x) >> 7) != (1 if is_ident(x) else 0)]
    q1 = f"""(set-logic ALL)
(declare-const x (_ BitVec 8))
(define-fun ident () Bool (or (and (bvuge x #x30) (bvule x #x39)) (and (bvuge x #x41) (bvule x #x5a)) (and (bvuge x #x61) (bvule x #x7a)) (= x #x5f)))
(define-fun lane () (_ BitVec 8) {smt(e)})
(assert (bvult x #x80))
(assert (not (= (= ((_ extract 7 7) lane) #b1) ident)))
(check-sat)
"""
    # non-ASCII bail-out: testz(set1(0x80), chunk) == 0 <=> some lane has its top bit set
    q2 = """(set-logic ALL)
(declare-const x (_ BitVec 8))
(assert (bvuge x #x80))
(assert (= (bvand x #x80) #x00))
(check-sat)
"""
    os.makedirs(os.path.join(build, "smt"), exist_ok=True)
    open(os.path.join(build, "smt", "avx2_lane_q1.smt2"), "w").write(q1)
    open(os.path.join(build, "smt", "avx2_lane_q2.smt2"), "w").write(q2)
    results = {}
    total = 0.0
    for solver, cmd in (("z3", ["z3", "-in"]), ("cvc5", ["cvc5", "--lang", "smt2", "--produce-models"])):
        for qn, q in (("q1", q1), ("q2", q2)):
            try:
                verdict, raw, dt = solve(cmd, q)
            except Exception as ex:  # noqa
                verdict, raw, dt = "error", repr(ex), 0.0
            results[f"{solver}.{qn}"] = verdict
            total += dt
    rec["solver_s"] = round(total, 3)
    rec["queries"] = results
    rec["translator_validation"] = {"bytes_checked": 128, "disagreements": disagreements}
    verdicts = set(results.values())
    if verdicts == {"unsat"} and not disagreements:
        rec.update({"class": "discharged", "status": "pass", "covers": {"all_solvers_unsat": "SATISFIED"}})
    elif "sat" in verdicts and disagreements:
        # both the solver and the direct evaluation exhibit a byte: report it
        path = os.path.join(build, "smt", "avx2_lane_counterexample.json")
        json.dump({"property": "C13", "harness": "smt/avx2_lane.py", "bytes": disagreements, "queries": results}, open(path, "w"))
        rec.update({"class": "violation", "status": "fail", "path": path,
                    "detail": f"lane predicate differs from the identifier class for ASCII bytes {disagreements[:8]}"})
    else:
        rec.update({"class": "undecided", "status": "inconclusive", "detail": f"solvers disagree or errored: {results}"})
    return rec


if __name__ == "__main__":
    print(json.dumps(run("/repo", "/verif/.build", {}), indent=1))
