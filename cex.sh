#!/bin/bash
# cex.sh <feature> <mod::harness>: run with concrete playback, replay natively, print notes
f=$1; h=$2
./kj.sh $f $h 24 1800 --no-memory-safety-checks -Z concrete-playback --concrete-playback=print > /dev/null
python3 - "$f" "$h" <<'PY'
import sys,re,subprocess
sys.path.insert(0,'/verif')
import run
f,h=sys.argv[1],sys.argv[2]
text=open(f'/verif/.build/logs/{h}.log','rb').read().decode('utf-8','replace')
c=run.extract_playback_values(text)
print(len(c),'failing checks with values')
run.generate()
subprocess.run(['cargo','build','--offline','--bin','replay','--features',f,'--target-dir','/verif/.build/replay'],cwd=run.HCRATE,capture_output=True)
for cand in c[:3]:
    print(cand['check'])
    o,d=run.native_replay(h,cand['values'],'dev')
    print(o,d.get('message')); print(d.get('notes'))
PY
