#!/bin/bash
# confirm_seed.sh <seed dir>: independent confirmation of a seeded change in a scratch worktree:
# patch applies, workspace builds, the whole existing suite passes, the demo fails with the patch
# and passes without it. Writes <seed dir>/confirm.log; prints CONFIRMED or NOT-CONFIRMED.
d=$(realpath "$1"); wt=/tmp/cs_wt_$$
log=$d/confirm.log; : > "$log"
git -C /repo worktree add -q --detach $wt HEAD >> "$log" 2>&1 || { echo "NOT-CONFIRMED worktree"; exit 2; }
cleanup() { git -C /repo worktree remove --force $wt >> "$log" 2>&1; }
trap cleanup EXIT
cd $wt
if ! git apply "$d/patch.diff" >> "$log" 2>&1; then echo "NOT-CONFIRMED patch does not apply"; exit 1; fi
cp "$d"/demo.sh . 2>/dev/null; cp "$d"/*.rs "$d"/*.pas . 2>/dev/null; chmod +x demo.sh
echo "--- suite with patch" >> "$log"
cargo nextest run --workspace --no-fail-fast --offline --test-threads 8 > suite.out 2>&1; rc=$?
tail -3 suite.out >> "$log"
if [ $rc -ne 0 ] || ! grep -q "3212 passed" suite.out; then echo "NOT-CONFIRMED suite fails with patch"; exit 1; fi
echo "--- demo with patch" >> "$log"
bash ./demo.sh >> "$log" 2>&1; with=$?
git apply -R "$d/patch.diff"
echo "--- demo without patch" >> "$log"
bash ./demo.sh >> "$log" 2>&1; without=$?
echo "demo exit with patch=$with without=$without" >> "$log"
if [ $with -ne 0 ] && [ $without -eq 0 ]; then echo "CONFIRMED suite=3212 passed demo_with=$with demo_without=$without"; exit 0; fi
echo "NOT-CONFIRMED demo with=$with without=$without"; exit 1
