#!/usr/bin/env python3
"""Builds seeded/<id>/meta.json from the sub-agent's meta.txt, the confirmation log and the trial
outputs (check_<PROP>.out written by tools/try_seed.sh)."""
import glob, json, os, re, sys

def main(d):
    d = d.rstrip('/')
    sid = os.path.basename(d)
    prop = sid.split('-')[0]
    meta = {"id": sid, "breaks_property": prop}
    mt = os.path.join(d, 'meta.txt')
    meta["needs_to_manifest_and_description"] = open(mt).read().strip() if os.path.exists(mt) else ""
    cl = os.path.join(d, 'confirm.log')
    if os.path.exists(cl):
        t = open(cl).read()
        m = re.search(r"demo exit with patch=(\d+) without=(\d+)", t)
        meta["confirmed_independently"] = {
            "script": "tools/confirm_seed.sh (scratch worktree of /repo HEAD; patch applied; whole suite; demo with and without)",
            "suite_with_patch": "3212 passed" if "3212 passed" in t else "see confirm.log",
            "demo_exit_with_patch": int(m.group(1)) if m else None,
            "demo_exit_without_patch": int(m.group(2)) if m else None,
        }
    trials = []
    for f in sorted(glob.glob(os.path.join(d, 'check_*.out'))):
        t = open(f).read()
        trials.append({
            "property_checked": os.path.basename(f)[6:-4],
            "command": "tools/try_seed.sh (git -C /repo apply patch.diff; python3 run.py check ...; git -C /repo checkout -- .)",
            "violations": re.findall(r"^VIOLATION .*$", t, re.M),
            "violated_obligations": [x[:200] for x in re.findall(r"^\s*violated obligation (.*)$", t, re.M)],
            "undecided": [x[:160] for x in re.findall(r"^UNDECIDED (.*)$", t, re.M)],
            "ok": re.findall(r"^OK property.*$", t, re.M),
        })
    meta["check_trials"] = trials
    meta["detected"] = any(tr["violations"] for tr in trials)
    json.dump(meta, open(os.path.join(d, 'meta.json'), 'w'), indent=1)
    return meta

if __name__ == '__main__':
    for d in sys.argv[1:]:
        m = main(d)
        print(m["id"], "detected" if m["detected"] else "NOT detected", [v for t in m["check_trials"] for v in t["violations"]][:2])
