#!/usr/bin/env python3
"""Regenerates the seeded-change table of DESIGN.md (between the SEED_TABLE markers) from
seeded/*/meta.json."""
import glob, json, os, re
NEEDS = {
 "C13-exponent-leading-underscore": ("decimal literal whose exponent digit run starts with the `_` separator (`1e_5`, `1e+_5`): swallowed into the number instead of ending it", "C13/L1.digit_n3, L1.digit_n5", "round 5; caught unchanged (reference scanner `reflex.rs` states the leading-`_` rule independently)"),
 "C08-linestart-cleanup-skipped-without-mls": ("`format_multiline_strings=false`: early return of the wrapper skips `remove_spaces_at_line_starts`, so every token first on a line keeps the space the spacing stage gave it", "C08/S2", "round 5; caught unchanged (S2 keeps the setting symbolic)"),
 "C06-rbrack-operator-defers": ("`)`/`]` followed by an operator defers the gap to it; `(`/`[`/`^` defer back: same pair of sites as C06-rparen-no-opinion, written independently in round 5", "C06/N2", "round 5; caught unchanged"),
 "C01-mls-short-line": ("multi-line literal with a non-blank interior line shorter than the closing quotes' indentation", "C12/M1c.short_nonblank_line (shared into C01)", "shape added to the catalogue because of this seed"),
 "C01-unicode-whitespace-dropped": ("NBSP / U+2028 etc. at a token start treated as blank (`char::is_whitespace`)", "C13/W1.sNs, W1.IPs (shared into C01)", "shapes with U+00A0 and U+2028 added because of this seed"),
 "C02-safety-net-cr": ("CR-only input: line comment directly followed by a comment; safety net stands down for a formatted token whose original whitespace holds a CR", "C02/H2.ignored_ws1", "H2 got symbolic original whitespace on formatted tokens because of this seed"),
 "C02-mls-blank-line-emptied": ("multi-line literal with a blank-only interior line longer than the base indentation", "C12/M1c.blank_line_longer_than_base (shared into C02)", "shape added because of this seed"),
 "C03-mls-any-shortcircuit": ("two multi-line literals in one statement, both needing re-indentation (`Iterator::any` short-circuits)", "C12/M5 (shared into C03)", "M5 written because of this seed"),
 "C04-child-line-cache": ("chain of single-child lines longer than wrap_column: exponential re-solving in the wrapping search", "—", "**missed**: the search is not encodable (§6)"),
 "C06-rparen-no-opinion": ("`)`/`]` directly followed by `(`/`[` with a gap: two sites that each defer the spacing to the other", "C06/N2", "—"),
 "C07-toggle-eof-offbyone": ("`pasfmt off` region left open until end of file: last token not marked", "C07/I2", "—"),
 "C07-token0-fmt-reset": ("`pasfmt off` comment as the very first token: TokenSpacing resets the whole FormattingData (incl. the private ignored flag) of token 0", "C08/S1 (shared into C07)", "S1 rebuilt on `run_spacing` (asserts all counters and the ignored flag are handed back) because of this seed"),
 "C08-blank-comment-not-trimmed": ("`//` comment whose body is only blanks keeps its trailing blanks", "C03/F1a (shared into C08)", "—"),
 "C08-u8-saturation-again": ("tab_width x continuation_indents > 255 with use_tabs=false (re-introduces F3)", "C10/A1 (shared into C08)", "A1 shared into C08 because of this seed"),
 "C09-lines-custom-skipflag": ("multi-line literal with a lone-CR line followed later by a bare-LF line", "C12/M1c.cr_then_lf (shared into C09)", "shape added because of this seed"),
 "C09-line-comment-ends-at-lf-only": ("CRLF input with an *ignored* line comment followed by a formatted token (lexer keeps the CR in the comment)", "C13/L1.slash_n3 (shared into C09)", "CR added to the comment alphabet and L1.slash shared into C09 because of this seed"),
 "C10-u8-saturation": ("tab_width x continuation_indents > 255 with use_tabs=false (= F3)", "C10/A1", "—"),
 "C12-lines-custom-crlf-lf": ("multi-line literal with CRLF directly followed by an empty LF-terminated line", "C12/M1c.crlf_then_empty_lf", "shape added because of this seed"),
 "C13-avx2-u3000": ("identifier + U+3000 + ASCII delimiter within one 32-byte AVX2 window", "C13/V1.len40_off3_u3000 (thorough)", "—"),
 "C13-leading-ws-after-u3000": ("ASCII blank directly after U+3000 no longer skipped", "C13/W1.sIs", "—"),
 "C14-anon-routine-parent-index": ("anonymous routine with child lines after a conditional directive: wrong parent token index", "—", "**missed**: parser not encodable, C14 not claimed (§6)"),
 "C15-crlf-revcol": ("cursor inside a multi-line token on a CRLF-terminated line (`lines()` vs `rsplit('\\n')`)", "C15/A.list8crlf", "CRLF token list added because of this seed"),
 "C15-wslen-ignored-branch": ("cursor in or after an ignored token whose whitespace is not canonical", "C15/B.list1_ignored", "—"),
 "C17-ascii-shortcut-utf16": ("UTF-16 BOM and pure-ASCII formatted text: encoder shortcut bypasses UTF-16", "C17/U3.utf16le", "U3 UTF-16 instances made to run (Vec::reserve model) because of this seed"),
 "C03-stage-order-content-after-wrap": ("keyword/comment normalisation moved after the wrapper in `make_formatter`: a comment that gets rewritten within one column of wrap_column is measured before and written after", "guard K-STAGES (C01, C03, C06, C08)", "reported as UNDECIDED (exit 2), not as a violation: the compositional argument no longer covers the pipeline; guard written before this seed arrived"),
 "C10-mls-indent-always-spaces": ("use_tabs=true and a multi-line literal with non-zero indentation: interior lines indented with spaces", "C12/M1c.lf_to_crlf_tabs (shared into C10)", "instance shared into C10 because of this seed; first reported UNDECIDED (CBMC aborted inside `slice::repeat` with a symbolic count), decided since `stub_str_repeat_bounded`"),
 "C04-consume-to-eof-char-count": ("unterminated `{`/`(*` comment or directive with U+3000 among the trailing blanks: token end inside a character => slicing panic", "C13/Z2 (shared into C04)", "Z2 written because of this seed"),
 "C02-lines-custom-crlf-reset": ("same site as C12-lines-custom-crlf-lf, seeded independently for C02", "C12/M1c.crlf_then_empty_lf (shared into C02)", "—"),
 "C12-closing-quote-u3000": ("closing quotes indented with U+3000: literal taken for non-conforming and left alone", "C12/M1c.u3000_base", "instance added (and the reference made U+3000-aware) because of this seed"),
 "C06-solution-return-at-ignored": ("`pasfmt off` region in the middle of a statement: `reconstruct_solution` returns at the first ignored token", "C08/S3 (shared into C06)", "S3 got symbolic ignored flags because of this seed"),
 "C04-routine-header-attr-skip-hang": ("routine header with an unclosed `[` before the first `;` (`function Foo: [Unsafe`): new skip loop in `parse_routine_header` without an end-of-input test spins forever", "—", "**missed**: parser not encodable (§6)"),
 "C07-safety-net-cr-ignored": ("CR-only line ends inside a `pasfmt off` region, `//` comment followed by another ignored token (re-introduces F1)", "C07/I4.emit_verbatim_ws1", "—"),
 "C09-mls-already-indented-early-return": ("multi-line literal already at its target indentation whose interior terminators differ from the configured line ending: early `return None`", "C12/M1c.lf_to_crlf_tabs, M1c.crlf_to_lf (shared into C09)", "—"),
 "C13-avx2-del-folded": ("DEL (0x7F) after identifier characters within a full 32-byte AVX2 window (case folding maps DEL onto `_`)", "C13/V1 (every instance)", "the SMT lane translator (V3) *refuses* the re-shaped code (UNDECIDED) rather than guessing; V1 decides"),
 "C15-unsorted-cursors-early-break": ("cursor list not in ascending order (`--cursor 7,0`): token walk stops once the *last* cursor is attached", "C15/A2.pair_list1_5_1, _7_0, list3_8_2, list4_14_1", "**missed at first** (every harness used one cursor): A2/B2 and the two-cursor hooks written because of this seed"),
 "C17-replacement-char-rejected": ("well-formed input containing U+FFFD: `decode_file` takes the character for a decoding error and refuses the file", "C17/U2 (UNDECIDED)", "**missed at first** (payload alphabet was ASCII; U2 was thorough-only). U2 instances with an arbitrary 3-byte scalar were written and U2 moved into the quick tier; with the change applied the new `str::contains(char)` (core's two-way searcher) and the now reachable `bail!` path (anyhow + backtrace capture) exhaust 10 GB, so the check ends UNDECIDED (exit 2) -- an alarm, not a decided violation; models of `simd_contains` and `Backtrace::capture` were tried in a scratch copy and did not bring it within reach (20 min, no verdict)"),
 "C17-double-bom": ("input starting with BOM + U+FEFF: second BOM stripped by `decode_with_bom_removal`", "C17/U2", "U2 written (with contract models of the library decoders) because of this seed"),
}
rows = ["| seeded change | what it needs to manifest | caught by | verdict of the check with the change applied | notes |", "|---|---|---|---|---|"]
for d in sorted(glob.glob('/verif/seeded/*/')):
    sid = os.path.basename(d.rstrip('/'))
    m = json.load(open(os.path.join(d, 'meta.json'))) if os.path.exists(os.path.join(d, 'meta.json')) else {}
    need, by, note = NEEDS.get(sid, ("", "", ""))
    if m.get("detected"):
        v = "VIOLATION, replayed natively (dev + release)"
    elif m.get("check_trials"):
        und = [u for t in m["check_trials"] for u in t["undecided"]]
        v = "UNDECIDED (" + und[0][:60] + ")" if und else "passes (not detected)"
    else:
        v = "not run"
    rows.append(f"| `{sid}` | {need} | {by} | {v} | {note} |")
table = "\n".join(rows)
p = '/verif/DESIGN.md'
s = open(p).read()
if 'SEED_TABLE' in s:
    s = s.replace('SEED_TABLE', '<!-- seed-table-begin -->\n' + table + '\n<!-- seed-table-end -->')
else:
    s = re.sub(r'<!-- seed-table-begin -->.*?<!-- seed-table-end -->', '<!-- seed-table-begin -->\n' + table.replace('\\', '\\\\') + '\n<!-- seed-table-end -->', s, flags=re.S)
open(p, 'w').write(s)
print(table)
