#!/bin/bash
# try_seed.sh <seed dir> <PROP> [harness regex]: apply the seeded patch to /repo, run the check
# (all tiers' obligations matching the regex, or the quick tier when no regex is given), restore.
d=$(realpath "$1"); prop=$2; only=$3
cd /repo || exit 2
if [ -n "$(git status --porcelain --untracked-files=no)" ]; then echo "repo dirty, refusing"; exit 2; fi
git apply "$d/patch.diff" || { echo "patch does not apply"; exit 2; }
cd /verif
if [ -n "$only" ]; then VERIF_ONLY="$only" python3 run.py check $prop --tier thorough > "$d/check_$prop.out" 2>&1; else python3 run.py check $prop --tier quick > "$d/check_$prop.out" 2>&1; fi
rc=$?
git -C /repo checkout -- .
echo "seed=$(basename $d) prop=$prop only=$only exit=$rc"
grep -E "VIOLATION|UNDECIDED|KNOWN|OK property|violated obligation" "$d/check_$prop.out" | cut -c1-260
exit $rc
