#!/usr/bin/env python3
"""Collects verdict / time / peak memory of every harness run logged under .build/logs/*.run.log
(latest run per harness) -> .build/times.json; prints those that did not pass."""
import glob, json, os, re, sys
sys.path.insert(0, '/verif')
import run
out = {}
for f in glob.glob('/verif/.build/logs/*.run.log'):
    name = os.path.basename(f)[:-8].split('.', 1)[1]
    text = open(f, 'rb').read().decode('utf-8', 'replace')
    r = run.parse_kani_log(text)
    m = re.search(r"PEAK_KB (\d+)", text)
    out[name] = {"verdict": r["verdict"], "time_s": r["time_s"], "failed": [x["description"] for x in r["failed"]][:2],
                 "peak_mb": int(m.group(1)) // 1024 if m else None, "oom": r["oom"], "mtime": os.path.getmtime(f)}
json.dump(out, open('/verif/.build/times.json', 'w'), indent=1)
bad = {k: v for k, v in out.items() if v["verdict"] != "SUCCESSFUL"}
print(len(out), "harnesses logged;", len(bad), "not successful")
for k, v in sorted(bad.items()):
    print("  ", k, v["verdict"], v["time_s"], v["peak_mb"], "oom" if v["oom"] else "", v["failed"])
