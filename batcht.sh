#!/bin/bash
# thorough tier of the listed properties, sequentially (used to measure / prune the thorough sets)
cd /verif
for p in "$@"; do
  echo "=== $p $(date +%T)" >> .build/logs/batcht.out
  VERIF_JOBS=${VERIF_JOBS:-6} python3 run.py check $p --tier thorough > .build/logs/thorough_$p.out 2>&1
  echo "exit $? $p $(date +%T)" >> .build/logs/batcht.out
done
