#!/bin/bash
cd /verif
for p in "$@"; do
  echo "=== $p $(date +%T)" >> .build/logs/batchq.out
  VERIF_JOBS=${VERIF_JOBS:-5} python3 run.py check $p --tier quick > .build/logs/quick_$p.out 2>&1
  echo "exit $? $p $(date +%T)" >> .build/logs/batchq.out
done
