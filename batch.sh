#!/bin/bash
# timing batch: thorough tier of the listed properties, sequentially
cd /verif
for p in "$@"; do
  echo "=== $p $(date +%T)" >> .build/logs/batch.out
  VERIF_JOBS=${VERIF_JOBS:-6} python3 run.py check $p --tier thorough > .build/logs/batch_$p.out 2>&1
  echo "exit $? $p $(date +%T)" >> .build/logs/batch.out
done
