"""Registry of proof obligations per property. Each obligation is one Kani harness (one solver
query over the real code). `tier`: quick obligations run in both tiers, thorough ones only in
the thorough tier. `timeout`/`mem_gb` are caps; a capped run is reported as undecided."""
import os
import re

OLF = "core/src/rules/optimising_line_formatter"


def ob(id, harness, what, bounds, functions, tier="quick", timeout=600, mem_gb=10, **kw):
    d = dict(id=id, harness=harness, what=what, bounds=bounds, functions=functions, tier=tier,
             timeout=timeout, mem_gb=mem_gb)
    d.update(kw)
    return d


PROPERTIES = {}

# ---------------------------------------------------------------------------------------------
PROPERTIES["C10"] = {
    "explanation": "settings -> indentation strings arithmetic over the full u8 x u8 x bool domain; byte-exact rendering of the "
                   "strings; the wrapper's line-length accounting equals the bytes the reconstructor emits; tabs-vs-spaces "
                   "two-run equality of the real reconstructor",
    "assumptions": ["str::repeat (std) is encoded as compiled; its loop is bounded by unwind 10 (doubling loop, n <= 255*255)"],
    "outside": ["that the wrapper makes the same decisions under both settings when the width is unconstrained (search not encodable)",
                "token counts > 3 and counters > 3 in the two-run harness"],
    "obligations": [
        ob("A1", "c10::c10_a1_settings_to_strings",
           "From<&FormattingConfig> for ReconstructionSettings: unit = 1 tab or tab_width spaces; continuation = continuation_indents units",
           "all 2 x 256 x 256 x 2 (use_tabs, tab_width, continuation_indents, line_ending)",
           ["front-end/src/lib.rs: From<&FormattingConfig> for ReconstructionSettings", "core/src/lang.rs: ReconstructionSettings::new"]),
        ob("A2.soft03", "c10::c10_a2_new_soft_w0_w3", "ReconstructionSettings::new renders width copies of the unit, byte by byte", "widths (0,3) spaces", ["core/src/lang.rs: ReconstructionSettings::new"]),
        ob("A2.soft24", "c10::c10_a2_new_soft_w2_w4", "same", "widths (2,4) spaces", ["core/src/lang.rs: ReconstructionSettings::new"]),
        ob("A2.hard12", "c10::c10_a2_new_hard_w1_w2", "same", "widths (1,2) tabs", ["core/src/lang.rs: ReconstructionSettings::new"]),
        ob("A2.hard50", "c10::c10_a2_new_hard_w5_w0", "same", "widths (5,0) tabs", ["core/src/lang.rs: ReconstructionSettings::new"]),
        ob("A3a", "c10::c10_a3_linewhitespace_len_arith",
           "LineWhitespace::len = ind*|unit| + cont*|continuation| without u32 overflow",
           "all u16 x u16 counters x all configurations", [OLF + "/types.rs: LineWhitespace::len"]),
        ob("A3b.soft", "c10::c10_a3_len_equals_emitted_soft_w2_w4", "LineWhitespace::len == bytes emitted by reconstruct before the token",
           "counters 0..=3, widths (2,4) spaces", [OLF + "/types.rs: LineWhitespace::len", "core/src/defaults/reconstructor.rs: reconstruct"]),
        ob("A3b.hard", "c10::c10_a3_len_equals_emitted_hard_w1_w3", "same", "counters 0..=3, widths (1,3) tabs",
           [OLF + "/types.rs: LineWhitespace::len", "core/src/defaults/reconstructor.rs: reconstruct"]),
        ob("A4.22", "c10::c10_a4_tabs_vs_spaces_tw2_ci2", "two-run: expand_leading_tabs(reconstruct under use_tabs) == reconstruct under spaces",
           "3 tokens, nl/ind/cont 0..=2, spaces 0..=1, tab_width=2, continuation_indents=2",
           ["front-end/src/lib.rs: From<&FormattingConfig> for ReconstructionSettings", "core/src/defaults/reconstructor.rs: reconstruct"]),
        ob("A4.31", "c10::c10_a4_tabs_vs_spaces_tw3_ci1", "same", "tab_width=3, continuation_indents=1",
           ["core/src/defaults/reconstructor.rs: reconstruct"], tier="thorough"),
        ob("A4.13", "c10::c10_a4_tabs_vs_spaces_tw1_ci3", "same", "tab_width=1, continuation_indents=3",
           ["core/src/defaults/reconstructor.rs: reconstruct"], tier="thorough"),
    ],
}


def validate(hcrate):
    """Registry <-> sources consistency."""
    problems = []
    src = os.path.join(hcrate, "src")
    declared = set()
    for f in os.listdir(src):
        m = re.match(r"^(c\d+)\.rs$", f)
        if not m:
            continue
        text = open(os.path.join(src, f)).read()
        for n in re.findall(r"^\s*fn (c\d+_\w+)\(\) unwind\(", text, re.M) + re.findall(r"^\s*(c\d+_\w+) => \(", text, re.M):
            declared.add(f"{m.group(1)}::{n}")
    registered = set()
    for pid, spec in PROPERTIES.items():
        for o in spec["obligations"]:
            registered.add(o["harness"])
            if o.get("excluding_known"):
                registered.add(o["excluding_known"])
    for h in sorted(registered - declared):
        problems.append(f"registered harness {h} not found in sources")
    for h in sorted(declared - registered):
        problems.append(f"harness {h} is declared but not registered")
    return problems
