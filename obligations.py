"""Registry of proof obligations per property.

Each obligation is one Kani harness = one solver query over the real code. The harness list is
discovered from the harness crate's sources (so a harness cannot silently go unregistered); this
file says, per family of harnesses (regular expression on the name), which property it serves,
what it decides, which functions of /repo it encodes, and which instances form the quick tier.
`timeout` / `mem_gb` are caps: a capped run is reported as undecided, never as success."""
import os
import re

OLF = "core/src/rules/optimising_line_formatter"
RECON = "core/src/defaults/reconstructor.rs: DelphiLogicalLinesReconstructor::reconstruct"
LEXER = "core/src/defaults/lexer.rs"

# (regex on harness name, id prefix, what, functions)
FAMILIES = [
    # ---- C01
    (r"c01_p1_", "P1", "LowercaseKeywords::format changes content only for non-ignored Keyword tokens, to the ASCII-lower-cased original; kind untouched",
     ["core/src/rules/lowercase_keywords.rs: LowercaseKeywords::format", "core/src/lang.rs: FormattedTokens::tokens_mut, Token::set_content"]),
    (r"c01_p2_", "P2", "format_line_comment preserves the non-blank characters exactly; result starts with // and has no line break; kind untouched",
     ["core/src/rules/comment_contents.rs: format_line_comment"]),
    (r"c01_p3_", "P3", "format_compiler_directive: same length, only lower->upper inside the directive-name prefix",
     ["core/src/rules/comment_contents.rs: format_compiler_directive"]),
    (r"c01_p5_", "P5", "reconstruct emits each content exactly once, in order; everything else emitted is space/tab/CR/LF (= reference rendering R0), arbitrary counters, ignored tokens included",
     [RECON]),
    # ---- C02
    (r"c02_h1_", "H1", "hard break invariants of the wrapper for every (previous kind, current kind) pair", [OLF + "/requirements.rs: get_formatting_invariant"]),
    (r"c02_h2_", "H2", "reconstructor safety net: a single-line comment is always followed by a line break before the next token's content", [RECON]),
    (r"c02_h3_", "H3", "TokenSpacing never leaves two adjacent word-like tokens without exactly one space, for all neighbour kinds and original spacing", ["core/src/rules/token_spacing.rs: TokenSpacing::format, space_operator"]),
    (r"c02_h4_", "H4", "upper-casing a directive name cannot change the directive kind (conditional_directive_type is case-insensitive)", [LEXER + ": conditional_directive_type"]),
    # ---- C03
    (r"c03_f1a_", "F1a", "result of format_line_comment is in normal form", ["core/src/rules/comment_contents.rs: format_line_comment"]),
    (r"c03_f1b_", "F1b", "format_line_comment leaves a normal-form comment untouched (with F1a: f(f(x)) = f(x))", ["core/src/rules/comment_contents.rs: format_line_comment"]),
    (r"c03_f2a_", "F2a", "after format_compiler_directive the directive name holds no lower-case letter (normal form)", ["core/src/rules/comment_contents.rs: format_compiler_directive"]),
    (r"c03_f2b_", "F2b", "format_compiler_directive leaves a normal-form directive untouched (with F2a: f(f(x)) = f(x))", ["core/src/rules/comment_contents.rs: format_compiler_directive"]),
    (r"c03_f3_", "F3", "every keyword of the table, in any letter case, is recognised as the same kind as its lower-case form", [LEXER + ": get_word_token_type, KEYWORDS"]),
    (r"c03_f4_", "F4", "TokenSpacing::format applied to its own output changes nothing", ["core/src/rules/token_spacing.rs: TokenSpacing::format"]),
    (r"c03_f6_", "F6", "reconstruct_solution applied to its own result yields the same counters (blank-line clamp is a fixpoint)", [OLF + "/mod.rs: reconstruct_solution"]),
    # ---- C06
    (r"c06_n2_", "N2", "two-run non-interference of TokenSpacing: result independent of original horizontal whitespace (outside the documented min(original,1) gaps)", ["core/src/rules/token_spacing.rs: TokenSpacing::format"]),
    (r"c06_n3_", "N3", "two-run: counters after reconstruct_solution independent of the original counters except blank-line grouping before the line", [OLF + "/mod.rs: reconstruct_solution"]),
    (r"c06_n5_", "N5", "tail of OptimisingLineFormatter::format is a function of the counters only", [OLF + "/mod.rs: OptimisingLineFormatter::format"]),
    # ---- C07
    (r"c07_i1_", "I1", "toggle recogniser parse_toggle == reference syntax (opener, blanks, pasfmt any case, blank, exactly on/off)", ["core/src/rules/formatting_toggle.rs: parse_toggle, parse_pasfmt_directive_comment_contents, parse_pasfmt_toggle"]),
    (r"c07_i2_", "I2", "FormattingToggler marks exactly off..on regions (inclusive) and lone on-comments", ["core/src/rules/formatting_toggle.rs: FormattingToggler::ignore_tokens"]),
    (r"c07_i3_", "I3", "ignored tokens cannot be obtained mutably; content rules leave them untouched", ["core/src/lang.rs: FormattedTokens::tokens_mut, get_token_mut", "core/src/rules/comment_contents.rs: CommentFormatter::format"]),
    (r"c07_i4_", "I4", "a fully ignored region is emitted byte for byte by reconstruct (output == concatenated original texts)", [RECON]),
    (r"c07_i5_", "I5", "IgnoreAsmIstructions marks exactly the tokens of AsmInstruction lines", ["core/src/rules/ignore_asm_instructions.rs: ignore_tokens"]),
    # ---- C08
    (r"c08_s1_", "S1", "K-SPC: after TokenSpacing spaces_before is 0/1 (except directly after an inline line comment), 0 for the first token", ["core/src/rules/token_spacing.rs: TokenSpacing::format"]),
    (r"c08_s2_", "S2", "OLF::format tail: newlines_before > 0 => spaces_before = 0, nothing else touched", [OLF + "/mod.rs: OptimisingLineFormatter::format"]),
    (r"c08_s3_", "S3", "K-OLF: reconstruct_solution: first break clamp(orig,1,2), other break 1, continue (0,0,0), indentation from the solution", [OLF + "/mod.rs: reconstruct_solution"]),
    (r"c08_s4_", "S4", "K-EOF: EofNewline gives a trailing EOF token exactly (1,0,0,0)", ["core/src/rules/eof_newline.rs: EofNewline::format"]),
    (r"c08_r1_", "R1", "reconstruct renders a contract-satisfying state canonically: no trailing blanks, <= 1 blank line, none at start, <= 1 space inside a line and no tab, whole indentation units, exactly one final terminator", [RECON]),
    # ---- C09
    (r"c09_q1_", "Q1", "two-run reconstruct lf vs crlf: crlf output = lf output with every LF replaced by CRLF; lf output has no CR", [RECON]),
    (r"c09_q3_", "Q3", "FormattingData::from gives the same counters for CRLF and LF versions of the original whitespace", ["core/src/lang.rs: impl From<(&str, bool)> for FormattingData"]),
    # ---- C10
    (r"c10_a1_", "A1", "settings -> indentation strings: unit = 1 tab or tab_width spaces, continuation = continuation_indents units", ["front-end/src/lib.rs: From<&FormattingConfig> for ReconstructionSettings", "core/src/lang.rs: ReconstructionSettings::new"]),
    (r"c10_a2_", "A2", "ReconstructionSettings::new renders width copies of the unit character, byte by byte", ["core/src/lang.rs: ReconstructionSettings::new"]),
    (r"c10_a3_linewhitespace", "A3a", "LineWhitespace::len = ind*|unit| + cont*|continuation| without overflow", [OLF + "/types.rs: LineWhitespace::len"]),
    (r"c10_a3_len_equals", "A3b", "LineWhitespace::len == bytes reconstruct emits before the token", [OLF + "/types.rs: LineWhitespace::len", RECON]),
    (r"c10_a4_", "A4", "two-run: expanding leading tabs of reconstruct(use_tabs) gives reconstruct(spaces)", ["front-end/src/lib.rs: From<&FormattingConfig> for ReconstructionSettings", RECON]),
    # ---- C12
    (r"c12_m1a_", "M1a", "lines_custom == reference line splitting (LF / CRLF / lone CR each end a line once)", [OLF + "/multiline_strings.rs: lines_custom"]),
    (r"c12_m1c_", "M1c", "format_multiline_strings == reference on a concrete literal with symbolic target layout (counters, ignored flag, line ending per instance)", [OLF + "/multiline_strings.rs: format_multiline_strings, try_rewrite_string, lines_custom"]),
    (r"c12_m1_", "M1", "format_multiline_strings == reference (value preserved, terminators = configured, target indentation exact, non-conforming / ignored literals untouched)", [OLF + "/multiline_strings.rs: format_multiline_strings, try_rewrite_string, lines_custom"]),
    (r"c12_m5_", "M5", "two multi-line literals in one logical line are both re-indented in the same pass (each == reference)", [OLF + "/multiline_strings.rs: format_multiline_strings"]),
    (r"c12_m3_", "M3", "lexer: odd run of >= 3 quotes + line break opens a multi-line literal ending at the first same run, else Unterminated to EOF", [LEXER + ": text_literal"]),
    # ---- C13
    (r"c13_l1_", "L1", "one real lexing step from an arbitrary state: structural contract K-LEX + boundary/kind == independent reference scanner", [LEXER + ": whitespace_and_token, lex_token_with_map and the sub-lexer of the class"]),
    (r"c13_k2_", "K2", "hashed keyword lookup == linear scan of the KEYWORDS table for every word of n letters (hits and misses)", [LEXER + ": get_word_token_type, hash_keyword, KEYWORD_LOOKUP_TABLE"]),
    (r"c13_z2_", "Z2", "consume_to_eof: an unterminated comment/directive ends where the trailing blanks (<= U+0020, U+3000) begin, on a character boundary", [LEXER + ": consume_to_eof, count_unicode_whitespace"]),
    (r"c13_d1_", "D1", "the 256-entry dispatch tables (normal and asm) select the prescribed sub-lexer for every first byte", [LEXER + ": LEXER_MAP, ASM_LEXER_MAP"]),
    (r"c13_w1_", "W1", "count_leading_whitespace == blank count (<= U+0020 and U+3000); eof consumes exactly the trailing blanks", [LEXER + ": count_leading_whitespace, count_unicode_whitespace, eof"]),
    (r"c13_v2_", "V2", "scalar identifier scan == reference", [LEXER + ": find_identifier_end_generic"]),
    (r"c13_v1_", "V1", "AVX2 identifier scan == reference (full chunks + tail, with and without U+3000)", [LEXER + ": find_identifier_end_avx2"]),
    # ---- C14
    (r"c14_g1_", "G1", "DirectiveTree passes: every non-conditional token in >= 1 pass, passes strictly increasing without conditional directives, one pass without directives, #passes <= #else-branches + 1", ["core/src/defaults/parser/directive_tree.rs: DirectiveTree::parse, passes, PassIter"]),
    # ---- C15
    (r"c15_a_", "A", "process_cursors (attach) == reference attach: token the cursor belongs to and its position kind/fields", ["core/src/defaults/reconstructor.rs: process_cursors, col_for_token_end_pre_fmt"]),
    (r"c15_a2_", "A2", "process_cursors on a LIST of two cursors (ascending, descending, equal, one beyond the end): each is attached exactly as the reference attaches it alone", ["core/src/defaults/reconstructor.rs: process_cursors"]),
    (r"c15_b2_", "B2", "relocate_cursors on two attached cursors == the two single-cursor results, on a symbolic new layout (2-run self-composition)", ["core/src/defaults/reconstructor.rs: relocate_cursors, offset_for_token, ws_len, nonbreaking_ws_len"]),
    (r"c15_b_", "B", "relocate_cursors from the attach state of a symbolic cursor on a symbolic new layout: within output; same offset inside an unchanged token; beyond end => end; blanks stay in their gap", ["core/src/defaults/reconstructor.rs: relocate_cursors, offset_for_token, ws_len, nonbreaking_ws_len, col_for_token_end_post_fmt"]),
    (r"c15_x_", "X", "cursor attach + re-projection: result within output; inside/at end of unchanged token => same offset in that token; beyond end => end", ["core/src/defaults/reconstructor.rs: process_cursors, relocate_cursors, offset_for_token, ws_len, col_for_token_end_post_fmt"]),
    # ---- C04
    (r"c04_cursor_nocontract_", "CUR", "process_cursors + relocate_cursors + reconstruct return (no panic, no overflow, loops bounded) for arbitrary small counters without the stage contracts", ["core/src/defaults/reconstructor.rs: process_cursors, relocate_cursors, col_for_token_end_post_fmt, nonbreaking_ws_len, reconstruct"]),
    # ---- C17
    (r"c17_u0_", "U0", "BOM sniffing == the three byte-order marks", ["encoding_rs: Encoding::for_bom (as used by orchestrator/src/file_formatter.rs: decode_file)"]),
    (r"c17_u1_", "U1", "hand-written UTF-16LE/BE encoders == Unicode code-unit arithmetic for arbitrary scalar values", ["orchestrator/src/file_formatter.rs: encode_utf16, encode_utf16le, encode_utf16be"]),
    (r"c17_u2_", "U2", "decode_file: the BOM selects the encoding over the configured one, is stripped and remembered; the decoded text is exactly the payload after the BOM", ["orchestrator/src/file_formatter.rs: decode_file", "encoding_rs: Encoding::for_bom, decode_without_bom_handling (UTF-8)"]),
    (r"c17_u3_", "U3", "write(): bytes == BOM ++ encode(text), returned length == bytes written", ["orchestrator/src/file_formatter.rs: write, encode"]),
]

# harnesses of the quick tier (everything else runs in the thorough tier only)
QUICK = set("""
c01_p1_lowercase_len3 c01_p2_line_comment_len3 c01_p2_line_comment_ideographic_space_last c01_p3_directive_brace_len4
c01_p5_recon_tokB_soft c01_p5_recon_tokB_hard_ignored_ws2
c02_h1_break_invariants_all_kind_pairs c02_h2_safety_net_soft c02_h2_safety_net_ignored_ws1 c02_h3_words_never_glued_pos1of3 c02_h3_words_never_glued_pos2of3 c02_h4_directive_kind_case_insensitive_len5
c03_f1a_line_comment_result_normal_len3 c03_f1b_line_comment_normal_untouched_len4 c03_f2a_directive_result_normal_len3 c03_f2b_directive_normal_untouched_name2 c03_f3_keywords_any_case_len4 c03_f4_spacing_fixpoint_3kinds c03_f6_solution_fixpoint
c06_n2_spacing_noninterference_3kinds c06_n3_solution_overwrites_layout c06_n5_olf_tail_reads_counters_only
c07_i1_toggle_brace_b1_w3 c07_i1_toggle_slashes_b0_w2 c07_i2_region_marking_3tokens c07_i3_mut_access_guard c07_i3_comment_rule_respects_flag c07_i4_emit_verbatim_ws1 c07_i5_asm_lines_marked
c08_s1_spacing_zero_or_one_3kinds c08_s2_olf_zeroes_spaces_at_line_start c08_s3_apply_solution_counters c08_s4_eof_newline c08_r1_render_soft_w2_w4
c09_q1_lf_vs_crlf_soft_w2_w4 c09_q3_counters_crlf_eq_lf_nnb
c10_a1_settings_to_strings c10_a2_new_soft_w0_w3 c10_a2_new_soft_w2_w4 c10_a2_new_hard_w1_w2 c10_a2_new_hard_w5_w0 c10_a3_linewhitespace_len_arith c10_a3_len_equals_emitted_soft_w2_w4 c10_a3_len_equals_emitted_hard_w1_w3 c10_a4_tabs_vs_spaces_tw2_ci2
c13_d1_dispatch_table_all_bytes c13_w1_blanks_sIs c13_w1_blanks_ssss c13_w1_blanks_sNs c13_v2_scalar_ident_sIs c13_l1_colon_n2 c13_l1_slash_n3 c13_l1_digit_n3 c13_l1_dot_n2 c13_l1_langle_n2 c13_l1_simple_ops_n1 c13_l1_unknown_n1 c13_v1_avx2_eq_ref_len33_off1 c13_k2_keyword_lookup_eq_scan_len3 c13_l1_word_a_n3 c13_z2_consume_to_eof_sIs c13_l1_percent_n3 c13_l1_rangle_n2 c13_l1_asm_at_n3 c13_l1_asm_digit_n3 c13_l1_asm_digit_n5 c13_l1_dollar_n3 c13_l1_slash_n5 c13_l1_underscore_n3
c13_l1_asm_word_a_n3 c13_l1_asm_word_e_n3 c13_l1_asm_word_m_n3 c13_l1_asm_dquote_n4 c13_l1_lbrace_n1 c13_l1_lparen_n2 c13_l1_digit_n5 c13_l1_digit_n6 c13_w1_blanks_IIs c13_w1_blanks_IPs c13_w1_blanks_sEs c13_w1_blanks_ses c13_w1_blanks_sI4
c13_z2_consume_to_eof_ssI c13_z2_consume_to_eof_sIIs c13_z2_consume_to_eof_sNs c13_z2_consume_to_eof_ses c13_k2_keyword_lookup_eq_scan_len2 c13_k2_keyword_lookup_eq_scan_len4 c13_v2_scalar_ident_ssss c13_v2_scalar_ident_sEes c13_v2_scalar_ident_s4s
c12_m1c_lf_basic c12_m1c_cr_only c12_m1c_short_nonblank_line c12_m1c_ignored_untouched
c15_a_attach_list1_c3 c15_a_attach_list3_c8 c15_a_attach_list4_c9 c15_a_attach_list2_c4 c15_b_relocate_list1_c1 c15_b_relocate_list1_c3 c15_b_relocate_list1_c5 c15_b_relocate_list2_c4 c15_b_relocate_list3_c8 c15_b_relocate_list4_c9 c15_b_relocate_list1_ignored_c3 c15_b_relocate_list1_cmax c15_b_relocate_rewritten_literal_c4 c15_b_relocate_rewritten_literal_c9 c15_a_attach_list8crlf_c2 c15_b_relocate_list8crlf_c2 c15_a_attach_list3_c6 c15_a_attach_list4_c14 c15_b_relocate_list3_c6 c15_b_relocate_list4_c14 c15_a2_attach_pair_list1_5_1 c15_a2_attach_pair_list1_9_2 c15_a2_attach_pair_list4_14_1 c15_b2_relocate_pair_list1_5_1 c15_b2_relocate_pair_list3_8_2
c04_cursor_nocontract_list1_c3 c04_cursor_nocontract_list5_c3 c04_cursor_nocontract_list4_c8 c04_cursor_nocontract_list6_c4 c04_cursor_nocontract_list1_cmax
c17_u0_bom_sniffing c17_u1_utf16le_1scalar c17_u1_utf16be_1scalar c17_u3_write_utf8_len3 c17_u2_decode_bom_then_feff_n1 c17_u2_decode_nobom_scalar3 c17_u2_decode_bom_scalar3
""".split())

# Harness families that exist in the sources but are NOT registered as obligations: they were
# measured to exceed the memory available to CBMC (documented in DESIGN.md section 2.3); keeping
# the code keeps the measurement reproducible (`./kj.sh <feature> <mod::name>`).
EXCLUDED = [
    (r"c12_m1_", "format_multiline_strings on symbolic literal bytes: std's char/str iterators over symbolic bytes run out of memory even at 10 bytes; replaced by M1c (concrete literals, symbolic layout)"),
    (r"c12_m1a_", "lines_custom on 5 symbolic bytes: 411 s of symbolic execution, then out of memory at 10 GB"),
    (r"c13_l1_quote_n[3-9]", "text literal with 3+ symbolic bytes: 330 s of symbolic execution then out of memory at 10 GB (`bytes().skip(symbolic).take_while(..)` inside the escape/quote loop); n = 1, 2 are registered (n = 2: 640 s)"),
    (r"c13_l1_hash_n", "`#` escapes with 2+ symbolic bytes: out of memory at 10 GB after 15 min"),
    (r"c13_l1_lbrace_(n[2-9]|directive)", "`{` with 2+ symbolic bytes: directive-expression recursion x loop unwinding: out of memory"),
    (r"c13_l1_lparen_n[3-9]", "`(*` with 3+ symbolic bytes: same recursion as `{`: out of memory"),
    (r"c17_u1_utf16(le|be)_2scalars", "UTF-16 encoders on two arbitrary chars: out of memory at 10 GB (one arbitrary char covers every code-unit case; the loop over chars is std's)"),
    (r"c14_g4_", "one pass of the recursive-descent parser on 1-2 symbolic-kind tokens: > 15 min / 9 GB without a verdict"),
    (r"c14_g1_", "DirectiveTree passes on 2-3 symbolic kinds: recursion x loop unwinding and symbolic-size Vec growth: out of memory at 10 GB"),
]

# obligations shared between properties: (property, harness regex)
SHARED = [
    ("C01", r"c12_m1c_"),         # P4: multi-line string rewriting preserves the non-blank sequence
    ("C02", r"c03_f3_"),          # H4: lower-cased keywords keep their kind
    ("C03", r"c12_m1c_lf_basic$"), ("C03", r"c12_m5_"),
    ("C02", r"c12_m1c_"),         # multi-line literals re-scan to the same literal modulo indentation/terminators
    ("C07", r"c08_s1_"), ("C07", r"c08_s2_"), ("C06", r"c08_s3_"),   # a solution is applied to all tokens of the line, ignored or not   # K-IGN: spacing and the wrapper's tail hand the ignored flag back unchanged
    ("C08", r"c03_f1a_"),         # line comments end up without trailing ASCII whitespace
    ("C08", r"c10_a1_"),          # a continuation is a whole number of indentation units
    ("C09", r"c12_m1c_"),         # Q2: interior terminators of re-indented literals = configured one
    ("C09", r"c13_l1_slash_"),    # Q4: a line comment ends at CR as well as LF
    ("C01", r"c13_w1_"),          # lexer losslessness: only Delphi blanks are whitespace
    ("C13", r"c03_f3_"),          # K1: keyword recognition
    ("C13", r"c12_m3_"),          # T2: multi-line literal opener / terminator
    # C04: every harness checks panics / overflow / unwinding; these run on unrestricted inputs
    ("C04", r"c13_l1_"), ("C04", r"c13_w1_"), ("C04", r"c13_z2_"), ("C10", r"c12_m1c_lf_to_crlf_tabs"), ("C04", r"c14_g1_"), ("C04", r"c12_m1c_"), ("C04", r"c12_m3_"), ("C04", r"c15_b_relocate_rewritten"),
    ("C04", r"c01_p2_"), ("C04", r"c01_p3_"), ("C04", r"c07_i1_"), ("C04", r"c17_u1_"),
]

SMT = {"C13": [{"module": "smt.avx2_lane", "tier": "quick"}]}

# shared obligations that also run in the borrowing property's quick tier
SHARED_QUICK = {
    ("C01", "c12_m1c_short_nonblank_line"), ("C02", "c03_f3_keywords_any_case_len4"), ("C03", "c12_m1c_lf_basic"),
    ("C08", "c03_f1a_line_comment_result_normal_len3"), ("C08", "c10_a1_settings_to_strings"), ("C09", "c12_m1c_cr_only"), ("C13", "c03_f3_keywords_any_case_len4"),
    ("C07", "c08_s1_spacing_zero_or_one_3kinds"), ("C06", "c08_s3_apply_solution_counters"), ("C02", "c12_m1c_blank_line_longer_than_base"),
    ("C09", "c13_l1_slash_n3"), ("C01", "c13_w1_blanks_sNs"),
    ("C04", "c13_z2_consume_to_eof_ssI"), ("C10", "c12_m1c_lf_to_crlf_tabs"),
    ("C04", "c13_l1_digit_n3"), ("C04", "c13_l1_slash_n3"), ("C04", "c01_p3_directive_brace_len4"),
    ("C04", "c15_b_relocate_rewritten_literal_c4"),
}

PROPERTY_META = {
    "C10": {
        "explanation": "settings arithmetic over the full configuration domain; byte-exact indentation strings; line-length accounting equals emitted bytes; tabs-vs-spaces two-run equality of the real reconstructor",
        "outside": ["that the wrapper makes the same decisions under both settings when the width is unconstrained (search not encodable)", "widths/counters beyond the stated instances in A2/A3b/A4"],
        "assumptions": ["A1/A3a: str::repeat is replaced by a length-only model (a symbolic-size allocation does not fit in CBMC); the real repeat is exercised byte by byte in A2", "A4 assumes contract K-OLF (a token that continues a line carries no indentation), guaranteed by C08/S3"],
    },
}


def harness_names(hcrate):
    src = os.path.join(hcrate, "src")
    out = []
    for f in sorted(os.listdir(src)):
        m = re.match(r"^(c\d+)\.rs$", f)
        if not m:
            continue
        text = open(os.path.join(src, f)).read()
        names = re.findall(r"\bfn (c\d+_\w+)\(\) unwind\(", text) + re.findall(r"\b(c\d+_\w+) => \(", text) + re.findall(r"\b(c\d+_\w+), c\d+_\w+ => \(", text)
        for n in names:
            out.append((m.group(1), n))
    return out


def bounds_from_name(n):
    return n.split("_", 2)[2] if n.count("_") >= 2 else n


def build(hcrate=None):
    hcrate = hcrate or os.path.join(os.path.dirname(os.path.abspath(__file__)), "kani", "h")
    props = {}
    unmatched = []
    for mod, name in harness_names(hcrate):
        if any(re.match(rx, name) for rx, _ in EXCLUDED):
            continue
        fam = next((f for f in FAMILIES if re.match(f[0], name)), None)
        if fam is None:
            unmatched.append(name)
            continue
        pid = "C" + mod[1:]
        o = dict(id=f"{fam[1]}.{bounds_from_name(name)}", harness=f"{mod}::{name}", what=fam[2], bounds=bounds_from_name(name),
                 functions=fam[3], tier="quick" if name in QUICK else "thorough", timeout=TIMEOUTS.get(name, 1500),
                 mem_gb=MEM.get(name, 10), feature=mod)
        if name.startswith("c13_v1_"):
            o["flags"] = []  # memory-safety checks ON for the unsafe AVX2 routine
        if name.startswith("c12_m1c_") or name.startswith("c12_m5_"):
            o["playback"] = False  # trace generation does not fit; failures are witnessed by the native search
        props.setdefault(pid, []).append(o)
    # shared obligations
    all_obs = [o for obs in props.values() for o in obs]
    for pid, rx in SHARED:
        for o in all_obs:
            if re.match(rx, o["harness"].split("::")[1]) and not any(x["harness"] == o["harness"] for x in props.get(pid, [])):
                o2 = dict(o)
                o2["id"] = "shared:" + o["id"]
                if (pid, o["harness"].split("::")[1]) not in SHARED_QUICK:
                    o2["tier"] = "thorough"
                props.setdefault(pid, []).append(o2)
    out = {}
    for pid, obs in sorted(props.items()):
        meta = PROPERTY_META.get(pid, {})
        out[pid] = {"obligations": obs, "smt": SMT.get(pid, []), "explanation": meta.get("explanation", ""), "outside": meta.get("outside", []),
                    "assumptions": meta.get("assumptions", []), "contracts": meta.get("contracts", [])}
    return out, unmatched


TIMEOUTS = {}
MEM = {}

PROPERTIES, UNMATCHED = build()


def validate(hcrate):
    return [f"harness {n} matches no family in obligations.FAMILIES" for n in UNMATCHED]
